package rules

import (
	"go/token"
	"go/types"
	"sort"
	"strings"

	"golang.org/x/tools/go/ssa"

	"kverif/internal/an"
)

func init() { Registry["C18"] = c18 }

const deschedLoadPkg = "pkg/descheduler/framework/plugins/loadaware"

func c18(c *Ctx) {
	exactCmpIn(c, deschedLoadPkg, "descheduler loadaware", 3)
	c18likeWithLike(c)
	r := c.R
	c18classify(c, deschedLoadPkg)
	c18bases(c, deschedLoadPkg)
	c18names(c, deschedLoadPkg)
	c18mark(c)
	c18lowReset(c)
	r.Decides("in evictPods an eviction is dominated by the continue-condition evaluated in the same iteration being true and by the pod filter passing; between a successful eviction and the next evaluation of the condition the node usage and the shared headroom are decremented (unless the pod has no metric)")
	r.Decides("the balance call is unreachable when no node is overloaded, no overloaded node is a confirmed anomaly, no node is underused, too few nodes are underused, or all nodes are underused")
	r.Decides("the source nodes handed to the eviction are the anomaly-filtered overloaded classes; the continue-condition returns true only for a node that is still over its high threshold and while every thresholded resource still has positive headroom")
	r.Decides("anomaly gating: the overloaded nodes are filtered by the per-node detector unless no (or a single-round) condition is configured; the detector enters the anomaly state only when the configured condition holds on a counter that counts consecutive abnormal marks")
	r.Decides("the continue-condition looks up the remaining headroom of every thresholded resource in every evaluation; every detector state change starts a generation with cleared counters")
	r.Declines("thresholds and running estimates numerically; classification arithmetic; detector timeouts/generations over wall-clock time")

	if fn := c.Fn(deschedLoadPkg, "", "evictPods"); fn != nil {
		c18evict(c, fn)
	}
	if fn := c.Fn(deschedLoadPkg, "LowNodeLoad", "processOneNodePool"); fn != nil {
		c18pool(c, fn)
	}
	c18anomaly(c)
}

func dynCallOf(fn *ssa.Function, param string) []ssa.CallInstruction {
	var out []ssa.CallInstruction
	for _, cl := range an.Calls(fn, false) {
		if cl.Common().StaticCallee() == nil && !cl.Common().IsInvoke() {
			if p, ok := cl.Common().Value.(*ssa.Parameter); ok && p.Name() == param {
				out = append(out, cl)
			}
		}
	}
	return out
}

func c18evict(c *Ctx, fn *ssa.Function) {
	r := c.R
	r.Rule("PATH: in evictPods podEvictor.Evict is dominated by continueEviction(...)==true and podFilter(pod)==true and dryRun==false; the loop body starts with the continue-condition (it dominates every other call of the iteration); from behind a successful Evict the next continue-condition is unreachable without the Sub on the headroom and node usage, except through the 'no pod metric' exit")
	key := fkey(fn)
	conds := dynCallOf(fn, "continueEviction")
	filters := dynCallOf(fn, "podFilter")
	var ev ssa.CallInstruction
	for _, cl := range an.Calls(fn, false) {
		if cl.Common().IsInvoke() && cl.Common().Method.Name() == "Evict" {
			ev = cl
		}
	}
	if len(conds) != 1 || len(filters) != 1 || ev == nil {
		r.Fail("PATH", key+"/shape", c.Pos(fn.Pos()), sprintf("expected one continueEviction call, one podFilter call and the Evict call; found %d, %d, %v", len(conds), len(filters), ev != nil))
		return
	}
	gs := an.Guards(ev)
	okC := an.GuardCall(gs, true, func(cc *ssa.CallCommon) bool { return cc == conds[0].Common() })
	okF := an.GuardCall(gs, true, func(cc *ssa.CallCommon) bool { return cc == filters[0].Common() })
	okD := false
	for _, g := range gs {
		if p, ok := g.Cond.(*ssa.Parameter); ok && p.Name() == "dryRun" && !g.Truth {
			okD = true
		}
	}
	r.Check(okC, "PATH", key+"/evict<=continue-condition", c.InstrPos(ev), "no eviction once the condition says stop", "Evict is not dominated by continueEviction()==true: a pod is evicted although the node is back under its threshold or the headroom is used up")
	r.Check(okF, "PATH", key+"/evict<=pod-filter", c.InstrPos(ev), "only pods passing the evictor's filters", "Evict is not dominated by podFilter(pod)==true")
	r.Check(okD, "PATH", key+"/evict<=!dryRun", c.InstrPos(ev), "dry-run evicts nothing", "Evict is not dominated by dryRun==false")
	// condition first in the iteration: it dominates the filter call and the eviction, and is re-evaluated per iteration
	r.Check(mustPass(conds[0], filters[0]) && mustPass(conds[0], ev), "PATH", key+"/condition-first", c.InstrPos(conds[0]), "the condition is evaluated before anything else in the iteration", "the continue-condition is not evaluated first in the iteration")
	// re-evaluation between two evictions: from after Evict (success) the Evict call is not reachable without passing the condition again
	reach := an.Explore(fn, an.After(ev), an.Facts{ev.Value(): an.True}, func(in ssa.Instruction) bool { return in == ssa.Instruction(conds[0]) })
	r.Check(!reach.Reached(ev), "PATH", key+"/re-evaluated-between-evictions", c.InstrPos(ev), "the condition is re-evaluated before the next eviction", "a second eviction is reachable without re-evaluating the continue-condition")
	// decrement before next evaluation
	var subs []ssa.Instruction
	for _, cl := range an.Calls(fn, false) {
		if an.ShortCallee(cl.Common()) == "Sub" {
			subs = append(subs, cl)
		}
	}
	isSub := map[ssa.Instruction]bool{}
	for _, s := range subs {
		isSub[s] = true
	}
	// facts: pod metric found
	facts := an.Facts{ev.Value(): an.True}
	for _, b := range fn.Blocks {
		for _, in := range b.Instrs {
			if bo, ok := in.(*ssa.BinOp); ok && an.IsNilConst(bo.Y) && strings.Contains(an.Path(bo.X), ".podMetrics[") {
				if bo.Op.String() == "==" {
					facts[bo] = an.False
				} else {
					facts[bo] = an.True
				}
			}
		}
	}
	// the ranged headroom map is non-empty: ok of the map iteration is true on first evaluation -> cannot be expressed; instead
	// require that the Sub calls exist and are inside a loop over totalAvailableUsages placed between Evict and the next condition.
	headroom, usage := false, false
	for _, s := range subs {
		p := an.Path(s.(ssa.CallInstruction).Common().Args[0])
		if strings.Contains(p, "range(totalAvailableUsages)") {
			headroom = true
		}
		if strings.Contains(p, ".usage[") || strings.Contains(p, ".prodUsage[") {
			usage = true
		}
		if !(instrBefore(ev, s) || an.ForwardReachBlocks(ev.Block())[s.Block()]) {
			headroom = false
		}
	}
	reach2 := an.Explore(fn, an.After(ev), facts, nil)
	reachedSub := false
	for _, s := range subs {
		if reach2.Reached(s) {
			reachedSub = true
		}
	}
	r.Check(headroom && usage && reachedSub && len(facts) >= 2, "PATH", key+"/decrement-after-eviction", c.InstrPos(ev), "headroom and node usage are decremented after each eviction",
		sprintf("after a successful eviction the running estimates are not updated: headroom decremented=%v, node usage decremented=%v, reachable after Evict=%v", headroom, usage, reachedSub))
}

func c18pool(c *Ctx, fn *ssa.Function) {
	r := c.R
	r.Rule("PATH: in processOneNodePool the call evictPodsFromSourceNodes is unreachable under each early-exit condition: (len(sourceNodes)==0 && len(prodHighNodes)==0), (len(abnormalNodes)==0 && len(abnormalProdNodes)==0), (no low node of any class), (allLowNodes <= NumberOfNodes), (allLowNodes == len(nodes))")
	key := fkey(fn)
	var ev, classify ssa.CallInstruction
	var filt []ssa.CallInstruction
	for _, cl := range an.Calls(fn, false) {
		switch an.ShortCallee(cl.Common()) {
		case "evictPodsFromSourceNodes":
			ev = cl
		case "classifyNodes":
			classify = cl
		case "filterRealAbnormalNodes":
			filt = append(filt, cl)
		}
	}
	if ev == nil || classify == nil || len(filt) != 2 {
		r.Fail("PATH", key+"/shape", c.Pos(fn.Pos()), sprintf("expected evictPodsFromSourceNodes, classifyNodes and two filterRealAbnormalNodes calls; found %v %v %d", ev != nil, classify != nil, len(filt)))
		return
	}
	// "class x is empty" as an assumption on every len(x) value (whatever is done with it: compared with 0 one by one,
	// or summed up first)
	lenZero := func(pred func(string) bool) an.Facts {
		f := an.Facts{}
		for _, cl := range an.Calls(fn, false) {
			call, ok := cl.(*ssa.Call)
			if !ok || !an.IsBuiltinCall(call, "len") {
				continue
			}
			if pred(an.Path(call.Call.Args[0])) {
				f[call] = an.Zero
			}
		}
		return f
	}
	exits := []struct {
		name  string
		facts an.Facts
		want  int
	}{
		{"no-overloaded-node", lenZero(func(p string) bool {
			return strings.Contains(p, "classifyNodes(") && (strings.HasSuffix(p, "#1") || strings.HasSuffix(p, "#3"))
		}), 2},
		{"no-confirmed-anomaly", lenZero(func(p string) bool { return strings.HasPrefix(p, "loadaware.filterRealAbnormalNodes(") }), 2},
		{"no-underused-node", lenZero(func(p string) bool {
			return strings.Contains(p, "classifyNodes(") && (strings.HasSuffix(p, "#0") || strings.HasSuffix(p, "#2") || strings.HasSuffix(p, "#4"))
		}), 3},
	}
	for _, e := range exits {
		reach := an.Explore(fn, nil, e.facts, nil)
		r.Check(len(e.facts) >= e.want && !reach.Reached(ev), "PATH", key+"/early-exit/"+e.name, c.InstrPos(ev), "nothing is evicted when "+e.name,
			sprintf("the balance call is reachable although %s (conditions recognised: %d of %d)", e.name, len(e.facts), e.want))
	}
	// allLowNodes comparisons
	for _, x := range []struct{ name, op, other string }{{"too-few-underused", "<=", "NumberOfNodes"}, {"all-underused", "==", "builtin.len("}} {
		f := an.Facts{}
		for _, b := range fn.Blocks {
			for _, in := range b.Instrs {
				if bo, ok := in.(*ssa.BinOp); ok && bo.Op.String() == x.op && strings.Contains(an.Path(bo.X), "builtin.len(") && strings.Contains(an.Path(bo.X), " + ") {
					if strings.Contains(an.Path(bo.Y), x.other) {
						f[bo] = an.True
					}
				}
			}
		}
		reach := an.Explore(fn, nil, f, nil)
		r.Check(len(f) == 1 && !reach.Reached(ev), "PATH", key+"/early-exit/"+x.name, c.InstrPos(ev), "nothing is evicted when "+x.name, sprintf("the balance call is reachable although %s (conditions recognised: %d)", x.name, len(f)))
	}
	// FLOW: source arguments
	r.Rule("FLOW: the source-node arguments of evictPodsFromSourceNodes are the results of filterRealAbnormalNodes applied to the overloaded (#1) and prod-overloaded (#3) classes of classifyNodes; the destination arguments are its low classes")
	a := ev.Common().Args
	srcOK := func(v ssa.Value, cls string) bool {
		for _, l := range an.Sources(v, nil) {
			call, ok := l.(*ssa.Call)
			if !ok || an.ShortCallee(&call.Call) != "filterRealAbnormalNodes" {
				return false
			}
			if !strings.HasSuffix(an.Path(call.Call.Args[0]), cls) {
				return false
			}
		}
		return true
	}
	r.Check(srcOK(a[2], "#1"), "FLOW", key+"/sources/node", c.InstrPos(ev), "source nodes = anomaly-filtered overloaded nodes", "the node-level sources are "+an.Path(a[2])+" instead of filterRealAbnormalNodes(<overloaded class>): nodes that are not confirmed anomalies (or not overloaded) would be drained")
	r.Check(srcOK(a[4], "#3"), "FLOW", key+"/sources/prod", c.InstrPos(ev), "prod source nodes = anomaly-filtered prod-overloaded nodes", "the prod-level sources are "+an.Path(a[4])+" instead of filterRealAbnormalNodes(<prod overloaded class>)")
	lowOK := strings.HasSuffix(an.Path(a[3]), "#0") && strings.HasSuffix(an.Path(a[5]), "#2") && strings.HasSuffix(an.Path(a[6]), "#4")
	r.Check(lowOK, "FLOW", key+"/destinations", c.InstrPos(ev), "destinations = the underused classes", "destination arguments are not the low / prod-low / both-low classes of classifyNodes")

	// the continue condition closure
	r.Rule("PATH: the continue-condition closure returns true only after isNodeOverutilized(usage, highThreshold) reported overutilized and no thresholded resource has headroom <= 0; every iteration over the thresholded resources reaches the headroom lookup for that resource")
	var cond *ssa.Function
	for _, an2 := range fn.AnonFuncs {
		for _, cl := range an.Calls(an2, false) {
			if an.ShortCallee(cl.Common()) == "isNodeOverutilized" {
				cond = an2
			}
		}
	}
	if cond == nil {
		r.Fail("PATH", key+"/continue-condition", c.Pos(fn.Pos()), "continue-condition closure with isNodeOverutilized not found")
		return
	}
	var over ssa.CallInstruction
	var cmpHead ssa.Value
	for _, cl := range an.Calls(cond, false) {
		switch an.ShortCallee(cl.Common()) {
		case "isNodeOverutilized":
			over = cl
		case "CmpInt64":
			for _, ref := range *cl.Value().Referrers() {
				if bo, ok := ref.(*ssa.BinOp); ok {
					cmpHead = bo
				}
			}
		}
	}
	reach := an.Explore(cond, an.After(over), an.Facts{extract(over.Value(), 1): an.False}, nil)
	bad := false
	for _, ret := range reach.Returns() {
		for _, alt := range reach.Alts(ret) {
			if reach.EvalAlt(alt, 0) != an.False {
				bad = true
			}
		}
	}
	r.Check(!bad, "PATH", key+"/continue-condition/needs-overutilized", c.InstrPos(over), "stops when the node is back under its high threshold", "the continue-condition can return true for a node that is not overutilized")
	if cmpHead == nil {
		r.Fail("PATH", key+"/continue-condition/needs-headroom", c.Pos(cond.Pos()), "the headroom test (CmpInt64(0) < 1) is missing")
	} else {
		reach = an.Explore(cond, nil, an.Facts{cmpHead: an.True}, nil)
		bad = false
		for _, ret := range reach.Returns() {
			for _, alt := range reach.Alts(ret) {
				if reach.EvalAlt(alt, 0) == an.True {
					// true may only be returned when the loop found no thresholded resource at all (zero iterations)
					for _, g := range alt.Guards {
						_ = g
					}
				}
			}
		}
		// simpler: from behind the headroom comparison being true, no 'true' return is reachable
		if in, ok := cmpHead.(ssa.Instruction); ok {
			reach = an.Explore(cond, an.After(in), an.Facts{cmpHead: an.True}, nil)
			for _, ret := range reach.Returns() {
				for _, alt := range reach.Alts(ret) {
					if reach.EvalAlt(alt, 0) != an.False {
						bad = true
					}
				}
			}
		}
		r.Check(!bad, "PATH", key+"/continue-condition/needs-headroom", c.Pos(cond.Pos()), "stops when the headroom of a resource is used up", "the continue-condition can return true although a resource has no headroom left")
	}
	// every thresholded resource is tested, whatever the node is overloaded on
	{
		var lk *ssa.Lookup
		for _, b := range cond.Blocks {
			for _, in := range b.Instrs {
				if x, ok := in.(*ssa.Lookup); ok && x.CommaOk && strings.Contains(an.Path(x.X), "totalAvailableUsages") {
					lk = x
				}
			}
		}
		okAll := false
		fromOver := false
		if lk != nil {
			// the resources tested are the thresholded ones (captured from the pool), not the subset the node is still over on
			for x := range backwardAll(lk.Index) {
				if call, ok := x.(*ssa.Call); ok && an.ShortCallee(&call.Call) == "isNodeOverutilized" {
					fromOver = true
				}
			}
		}
		if lk != nil && !fromOver {
			if hdr := an.InnermostLoopHeader(lk.Block()); hdr != nil {
				if ifi, isIf := hdr.Instrs[len(hdr.Instrs)-1].(*ssa.If); isIf {
					body := ifi.Block().Succs[0]
					rb := an.Explore(cond, &an.Start{Block: body, Index: 0}, nil, func(in ssa.Instruction) bool { return in == ssa.Instruction(lk) })
					okAll = !rb.BlockReached(hdr) && len(rb.Returns()) == 0
				}
			}
		}
		r.Check(okAll, "PATH", key+"/continue-condition/every-resource-tested", c.Pos(cond.Pos()), "each thresholded resource reaches the headroom test", "the headroom test does not cover every thresholded resource (an iteration can finish without the lookup, or the loop runs over the resources the node is still over on instead of all thresholded ones): eviction continues although the underused nodes have no room left for a resource")
	}
	thr := false
	for _, a := range over.Common().Args {
		if strings.Contains(an.Path(a), "ighResourceThreshold") {
			thr = true
		}
	}
	r.Check(thr, "FLOW", key+"/continue-condition/high-threshold", c.InstrPos(over), "compared against the high thresholds", "the continue-condition no longer compares against the high thresholds")

	// usage and threshold of the same kind: prod usage with the prod threshold, node usage with the node threshold
	r.Rule("PAIR(usage with its threshold): in the continue-condition, with the prod flag assumed true the operands of isNodeOverutilized are (prodUsage, prodHighResourceThreshold), with it assumed false (usage, highResourceThreshold)")
	var prodFlag ssa.Value
	for _, p := range cond.Params {
		if bt, isB := p.Type().Underlying().(*types.Basic); isB && bt.Kind() == types.Bool {
			prodFlag = p
		}
	}
	if prodFlag == nil {
		r.Unknown("PAIR", key+"/continue-condition/usage-threshold-pair", c.Pos(cond.Pos()), "the prod flag of the continue-condition was not found")
		return
	}
	okPair, whyPair := true, ""
	for _, sc := range []struct {
		prod  an.Abs
		u, t  string
		label string
	}{{an.True, ".prodUsage", ".prodHighResourceThreshold", "prod"}, {an.False, ".usage", ".highResourceThreshold", "node"}} {
		facts := an.Facts{prodFlag: sc.prod}
		// the flag may have been spilled: every load of its cell too
		for _, b := range cond.Blocks {
			for _, in := range b.Instrs {
				if ld, isLd := in.(*ssa.UnOp); isLd && ld.Op == token.MUL {
					for _, s2 := range cellSources(ld) {
						if s2 == prodFlag {
							facts[ld] = sc.prod
						}
					}
				}
			}
		}
		reach := an.Explore(cond, nil, facts, nil)
		a := over.Common().Args
		for _, v := range reach.Values(a[0]) {
			if !strings.HasSuffix(an.Path(v), sc.u) {
				okPair, whyPair = false, sc.label+" round: usage operand is "+an.Path(v)
			}
		}
		for _, v := range reach.Values(a[1]) {
			if !strings.HasSuffix(an.Path(v), sc.t) {
				okPair, whyPair = false, sc.label+" round: threshold operand is "+an.Path(v)
			}
		}
	}
	r.Check(okPair, "PAIR", key+"/continue-condition/usage-threshold-pair", c.InstrPos(over), "usage and threshold of the same kind", "the stop test compares a usage with the threshold of the other kind ("+whyPair+"): prod pods keep being evicted until the whole node is under the prod threshold")
}

const anomalyPkg = "pkg/descheduler/utils/anomaly"

// c18anomaly: the structural part of "has been over the threshold for the required consecutive rounds".
func c18anomaly(c *Ctx) {
	r := c.R
	r.Rule("PATH(anomaly gate): filterRealAbnormalNodes returns its input unfiltered only when no anomaly condition is configured or it asks for a single abnormality; otherwise a node is appended only under Mark(false) == StateAnomaly; the configured AnomalyConditionFn compares the counter's ConsecutiveAbnormalities with the configured number by > or >=")
	if fn := c.Fn(deschedLoadPkg, "", "filterRealAbnormalNodes"); fn != nil {
		key := fkey(fn)
		var src *ssa.Parameter
		for _, p := range fn.Params {
			if p.Name() == "sourceNodes" {
				src = p
			}
		}
		facts := an.Facts{}
		for _, b := range fn.Blocks {
			for _, in := range b.Instrs {
				bo, ok := in.(*ssa.BinOp)
				if !ok {
					continue
				}
				if bo.Op == token.EQL && strings.HasSuffix(an.Path(bo.X), "anomalyCondition") && an.IsNilConst(bo.Y) {
					facts[bo] = an.False
				}
				// "== 1", "<= 1", "< 2": at most one abnormality required
				if k, isC := constIntOf(bo.Y); isC && strings.HasSuffix(an.Path(bo.X), ".ConsecutiveAbnormalities") &&
					(bo.Op == token.EQL && k == 1 || bo.Op == token.LEQ && k == 1 || bo.Op == token.LSS && k == 2) {
					facts[bo] = an.False
				}
			}
		}
		if src == nil || len(facts) != 2 {
			r.Unknown("PATH", key+"/bypass", c.Pos(fn.Pos()), sprintf("bypass conditions not recognised (%d of 2)", len(facts)))
		} else {
			reach := an.Explore(fn, nil, facts, nil)
			bad := ""
			for _, ret := range reach.Returns() {
				for _, v := range reach.Values(ret.Results[0]) {
					if v == ssa.Value(src) {
						bad = c.InstrPos(ret)
					}
				}
			}
			r.Check(bad == "", "PATH", key+"/bypass", c.Pos(fn.Pos()), "the unfiltered list is returned only without an anomaly condition (or with a single required abnormality)", "with an anomaly condition that requires several consecutive abnormalities the overloaded nodes are still returned unfiltered at "+bad)
		}
		n := 0
		for _, cl := range an.Calls(fn, false) {
			if !an.IsBuiltinCall(cl.Value(), "append") {
				continue
			}
			n++
			ok := false
			for _, g := range an.Guards(cl) {
				bo, isB := g.Cond.(*ssa.BinOp)
				if !isB || bo.Op != token.EQL || !g.Truth {
					continue
				}
				k, isC := constIntOf(bo.Y)
				call, idx := an.ResultOfCall(bo.X)
				if isC && k == 1 && call != nil && idx == 0 && call.Call.IsInvoke() && call.Call.Method.Name() == "Mark" && isFalseConst(call.Call.Args[0]) {
					ok = true
				}
			}
			r.Check(ok, "PATH", key+"/append-needs-anomaly-state", c.InstrPos(cl), "a node is kept only when Mark(false) reports StateAnomaly", "a node is appended to the confirmed-anomaly list without Mark(false) having returned StateAnomaly")
		}
		if n == 0 {
			r.Fail("PATH", key+"/append-needs-anomaly-state", c.Pos(fn.Pos()), "no append found: the filter result is not built from the detector verdicts")
		}
		// the configured condition
		found := false
		for _, cf := range fn.AnonFuncs {
			stored := false
			for _, b := range fn.Blocks {
				for _, in := range b.Instrs {
					if st, ok := in.(*ssa.Store); ok {
						if mc, ok := st.Val.(*ssa.MakeClosure); ok && mc.Fn == ssa.Value(cf) && strings.HasSuffix(an.Path(st.Addr), ".AnomalyConditionFn") {
							stored = true
						}
					}
				}
			}
			if !stored {
				continue
			}
			found = true
			ok := true
			for _, b := range cf.Blocks {
				ret, isR := b.Instrs[len(b.Instrs)-1].(*ssa.Return)
				if !isR {
					continue
				}
				bo, isB := ret.Results[0].(*ssa.BinOp)
				if !isB {
					ok = false
					continue
				}
				// counter > configured, or its mirror image configured < counter
				x, y, op := bo.X, bo.Y, bo.Op
				if strings.HasSuffix(an.Path(x), "anomalyCondition.ConsecutiveAbnormalities") {
					x, y = y, x
					switch op {
					case token.LSS:
						op = token.GTR
					case token.LEQ:
						op = token.GEQ
					case token.GTR:
						op = token.LSS
					case token.GEQ:
						op = token.LEQ
					}
				}
				if (op != token.GTR && op != token.GEQ) || !strings.HasSuffix(an.Path(x), "counter.ConsecutiveAbnormalities") || !strings.HasSuffix(an.Path(y), "anomalyCondition.ConsecutiveAbnormalities") {
					ok = false
				}
			}
			r.Check(ok, "PATH", key+"/condition-fn", c.Pos(cf.Pos()), "anomaly = consecutive abnormalities above the configured number", "the AnomalyConditionFn handed to the detector is not 'counter.ConsecutiveAbnormalities >(=) anomalyCondition.ConsecutiveAbnormalities'")
		}
		if !found {
			r.Fail("PATH", key+"/condition-fn", c.Pos(fn.Pos()), "no closure is stored into Options.AnomalyConditionFn: the configured number of consecutive abnormalities is not used")
		}
	}

	r.Rule("TYPESTATE(detector): BasicDetector.state is written only in setState; setState(StateAnomaly) is called only from onAbnormalities, either in the already-anomalous arm or under anomalyConditionFn(d.counter)==true; Mark calls onAbnormalities only for normality==false; Counter.ConsecutiveAbnormalities is only ever incremented by one in onAbnormalities and set to zero elsewhere (onNormality, clear); every state change starts a new generation and every new generation clears the counters")
	stateWriters, consecWriters := map[string]bool{}, map[string]string{}
	var toAnomaly []ssa.CallInstruction
	for _, fn := range c.PkgFuncs(anomalyPkg) {
		for _, b := range fn.Blocks {
			for _, in := range b.Instrs {
				switch x := in.(type) {
				case *ssa.Store:
					owner, field, _, ok := an.FieldOf(x.Addr)
					if !ok {
						continue
					}
					if strings.HasSuffix(owner, "BasicDetector") && field == "state" {
						stateWriters[fn.Name()] = true
					}
					if strings.HasSuffix(owner, "Counter") && field == "ConsecutiveAbnormalities" {
						kind := "other"
						if k, isC := constIntOf(x.Val); isC && k == 0 {
							kind = "zero"
						} else if bo, isB := x.Val.(*ssa.BinOp); isB && bo.Op == token.ADD {
							if k, isC := constIntOf(bo.Y); isC && k == 1 {
								if ld, isL := bo.X.(*ssa.UnOp); isL && an.Path(ld.X) == an.Path(x.Addr) {
									kind = "inc"
								}
							}
						}
						if prev, seen := consecWriters[fn.Name()]; seen && prev != kind {
							kind = "other"
						}
						consecWriters[fn.Name()] = kind
					}
				case ssa.CallInstruction:
					if an.ShortCallee(x.Common()) == "setState" && len(x.Common().Args) >= 2 {
						if k, isC := constIntOf(x.Common().Args[1]); !isC || k == 1 {
							toAnomaly = append(toAnomaly, x)
						}
					}
				}
			}
		}
	}
	k := "pkg/descheduler/utils/anomaly.BasicDetector"
	sw := keysOf(stateWriters)
	r.Check(len(sw) == 1 && sw[0] == "setState", "TYPESTATE", k+"/state-writers", "", "state is written by setState only", sprintf("BasicDetector.state is written by %v; only setState may change the detector state", sw))
	okInc := consecWriters["onAbnormalities"] == "inc"
	var others []string
	for f, kind := range consecWriters {
		if f != "onAbnormalities" && kind != "zero" {
			others = append(others, f+":"+kind)
		}
	}
	sort.Strings(others)
	r.Check(okInc && len(others) == 0 && consecWriters["onNormality"] == "zero", "TYPESTATE", k+"/consecutive-counter", "", "ConsecutiveAbnormalities: +1 in onAbnormalities, reset to 0 by onNormality/clear", sprintf("ConsecutiveAbnormalities is not a count of consecutive abnormal marks (onAbnormalities:%s onNormality:%s others:%v)", consecWriters["onAbnormalities"], consecWriters["onNormality"], others))
	if len(toAnomaly) == 0 {
		r.Fail("TYPESTATE", k+"/to-anomaly", "", "no setState(StateAnomaly) call found")
	}
	for i, cl := range toAnomaly {
		fn := cl.Parent()
		ok := fn.Name() == "onAbnormalities"
		why := "called from " + fn.Name()
		if ok {
			// unreachable once the state is not the anomalous one and the condition function said no
			// (whatever the shape of the test: arms of a switch, nested ifs, or one disjunction)
			facts := an.Facts{}
			nFn := 0
			for _, b := range fn.Blocks {
				for _, in := range b.Instrs {
					switch x := in.(type) {
					case *ssa.Call:
						if strings.HasSuffix(an.Path(x.Call.Value), ".anomalyConditionFn") && len(x.Call.Args) == 1 && strings.HasSuffix(an.Path(x.Call.Args[0]), ".counter") {
							facts[x] = an.False
							nFn++
						}
					case *ssa.BinOp:
						if x.Op != token.EQL && x.Op != token.NEQ {
							continue
						}
						pv, kv := x.X, x.Y
						if _, isC := constIntOf(pv); isC {
							pv, kv = kv, pv
						}
						if p, isP := pv.(*ssa.Parameter); isP && len(fn.Params) > 1 && p == fn.Params[1] {
							if kk, isC := constIntOf(kv); isC && kk == 1 {
								if x.Op == token.EQL {
									facts[x] = an.False
								} else {
									facts[x] = an.True
								}
							}
						}
					}
				}
			}
			reach := an.Explore(fn, nil, facts, nil)
			ok = nFn > 0 && !reach.Reached(cl)
			why = "not guarded by anomalyConditionFn(d.counter) or by the already-anomalous arm"
		}
		r.Check(ok, "TYPESTATE", sprintf("%s/to-anomaly/%s#%d", k, fn.Name(), i), c.InstrPos(cl), "transition to StateAnomaly only under the anomaly condition", "setState(StateAnomaly) is "+why)
	}
	if tg := c.Fn(anomalyPkg, "BasicDetector", "toNewGeneration"); tg != nil {
		reach := an.Explore(tg, nil, nil, func(in ssa.Instruction) bool {
			cl, ok := in.(ssa.CallInstruction)
			return ok && an.ShortCallee(cl.Common()) == "clear"
		})
		r.Check(len(reach.Returns()) == 0, "TYPESTATE", k+"/new-generation-clears", c.Pos(tg.Pos()), "every new generation starts with cleared counters", "toNewGeneration can return without counter.clear(): abnormal marks counted before a return to the ok state survive it, and the next overloaded round is an anomaly at once")
	}
	if ss := c.Fn(anomalyPkg, "BasicDetector", "setState"); ss != nil {
		okGen := false
		for _, b := range ss.Blocks {
			for _, in := range b.Instrs {
				st, isS := in.(*ssa.Store)
				if !isS {
					continue
				}
				if _, f, _, ok := an.FieldOf(st.Addr); !ok || f != "state" {
					continue
				}
				reach := an.Explore(ss, an.After(st), nil, func(x ssa.Instruction) bool {
					cl, ok := x.(ssa.CallInstruction)
					return ok && an.ShortCallee(cl.Common()) == "toNewGeneration"
				})
				okGen = len(reach.Returns()) == 0
			}
		}
		r.Check(okGen, "TYPESTATE", k+"/state-change-starts-generation", c.Pos(ss.Pos()), "a state change always starts a new generation", "setState can change the state without toNewGeneration")
	}
	if mark := c.Fn(anomalyPkg, "BasicDetector", "Mark"); mark != nil {
		ok, n := true, 0
		for _, cl := range an.Calls(mark, false) {
			switch an.ShortCallee(cl.Common()) {
			case "onAbnormalities", "onNormality":
				n++
				want := an.ShortCallee(cl.Common()) == "onNormality"
				good := false
				for _, g := range an.Guards(cl) {
					if p, isP := g.Cond.(*ssa.Parameter); isP && p.Name() == "normality" && g.Truth == want {
						good = true
					}
				}
				ok = ok && good
			}
		}
		r.Check(ok && n == 2, "TYPESTATE", k+"/mark-dispatch", c.Pos(mark.Pos()), "Mark(false) counts an abnormality, Mark(true) a normality", "Mark does not dispatch normality==false to onAbnormalities and normality==true to onNormality")
	}
}
