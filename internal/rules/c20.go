package rules

import (
	"go/token"
	"sort"
	"strings"

	"golang.org/x/tools/go/ssa"

	"kverif/internal/an"
)

func init() { Registry["C20"] = c20 }

const nodesloPkg = "pkg/slo-controller/nodeslo"

func c20(c *Ctx) {
	c20alwaysStored(c)
	c20handlerExclusive(c)
	c.R.Rule("FRESH(config copy): GetCfgCopy hands out a deep copy of the cached configuration, never the cache's own struct or a shallow copy of it (the strategies inside are pointers)")
	freshResult(c, c.Fn(nodesloPkg, "SLOCfgHandlerForConfigMapEvent", "GetCfgCopy"), 0, "a node-specific value written into the strategy a reconcile picked lands in the cache and leaks into every other node's NodeSLO")
	c20selectorError(c)
	r := c.R
	r.Decides("the five section merge functions agree: on a JSON parse error they return the old (previously effective) section, on an absent key the default (or empty) section, every MergeCfg call has the layered base first and the parsed overlay second, and a node entry that sets nothing of the section inherits the merged cluster strategy")
	r.Decides("syncConfig stores each merge result in its own section of the new config unconditionally (so the 'old on error' value survives) and changes the cache only through updateCacheIfChanged")
	r.Decides("the per-node selectors return the first matching node entry from inside the loop and the cluster strategy only after the loop; every section of the NodeSLO spec is produced")
	r.Decides("a failed write of the NodeSLO (Create/Update) makes Reconcile return the error (the request is retried; the spec is not silently left at the previous layered values); the lazy initialisation of the config cache checks, fetches and applies the ConfigMap in one critical section")
	r.Declines("field-by-field JSON overlay semantics of MergeCfg and equality of the delivered strategy with the layered value")

	c20deliver(c)

	merges := []string{"calculateResourceThresholdCfgMerged", "calculateResourceQOSCfgMerged", "calculateCPUBurstCfgMerged", "calculateSystemConfigMerged", "calculateHostAppConfigMerged"}
	r.Rule("SIBLING: in each calculate*Merged: after json.Unmarshal failed every reachable return yields the parameter oldCfg; with the key absent the return does not depend on the ConfigMap data; MergeCfg(base, overlay): base derives from the default config / the merged cluster strategy, overlay from the parsed config; inside the node loop the no-override arm stores the cluster copy")
	vec := map[string]string{}
	for _, name := range merges {
		fn := c.Fn(nodesloPkg, "", name)
		if fn == nil {
			continue
		}
		key := "nodeslo." + name
		var um ssa.CallInstruction
		for _, cl := range an.Calls(fn, false) {
			if an.CalleeName(cl.Common()) == "encoding/json.Unmarshal" {
				um = cl
			}
		}
		if um == nil {
			r.Fail("SIBLING", key+"/keep-old-on-error", c.Pos(fn.Pos()), "json.Unmarshal of the section not found")
			continue
		}
		// (a) keep old on error
		reach := an.Explore(fn, an.After(um), an.Facts{um.Value(): an.NonNil}, nil)
		okOld := true
		nret := 0
		for _, ret := range reach.Returns() {
			for _, alt := range reach.Alts(ret) {
				nret++
				if !derivesOnlyFromParam(alt.Results[0], fn.Params[0]) {
					okOld = false
				}
			}
		}
		r.Check(okOld && nret >= 1, "SIBLING", key+"/keep-old-on-error", c.InstrPos(um), "an unparsable section keeps the previous settings", "after a parse error the function does not return the old section unchanged: the previously effective settings are cleared or replaced")
		// (b) absent key -> default / empty, independent of data
		var okLookup ssa.Value
		for _, b := range fn.Blocks {
			for _, in := range b.Instrs {
				if e, ok := in.(*ssa.Extract); ok && e.Index == 1 {
					if lk, ok := e.Tuple.(*ssa.Lookup); ok && lk.CommaOk && strings.HasSuffix(an.Path(lk.X), ".Data") {
						okLookup = e
					}
				}
			}
		}
		if okLookup == nil {
			r.Fail("SIBLING", key+"/default-when-absent", c.Pos(fn.Pos()), "the comma-ok lookup of the section key not found")
		} else {
			reach = an.Explore(fn, nil, an.Facts{okLookup: an.False}, nil)
			okDef := true
			for _, ret := range reach.Returns() {
				for _, alt := range reach.Alts(ret) {
					if reach.Reached(um) {
						okDef = false
					}
					src := an.Path(alt.Results[0])
					if !(strings.Contains(src, "DefaultSLOCfg") || strings.Contains(src, "local:complit") || strings.Contains(src, "{}")) {
						if derivesOnlyFromParam(alt.Results[0], fn.Params[0]) {
							okDef = false
						}
					}
				}
			}
			r.Check(okDef, "SIBLING", key+"/default-when-absent", c.Pos(fn.Pos()), "an absent section falls back to the defaults", "with the section key absent the function parses data or returns the old section instead of the defaults")
		}
		// (c) MergeCfg argument order
		nm := 0
		okOrder := true
		for _, cl := range an.Calls(fn, false) {
			if an.ShortCallee(cl.Common()) != "MergeCfg" {
				continue
			}
			nm++
			a := cl.Common().Args
			base, over := an.Path(a[0]), an.Path(a[1])
			baseOK := strings.Contains(base, "DefaultSLOCfg") || strings.Contains(base, "ClusterStrategy") || strings.Contains(base, "DeepCopy")
			overOK := !strings.Contains(over, "DefaultSLOCfg") && (strings.Contains(over, "local:mergedCfg") || strings.Contains(over, "NodeStrategies") || strings.Contains(over, "Strategy"))
			parsed := an.ForwardReach(um.Common().Args[1], nil)
			_ = parsed
			if !baseOK || !overOK || strings.Contains(over, "DeepCopy") {
				okOrder = false
			}
			// MergeCfg writes into its first argument: the base must be a private copy - the result of DeepCopy() (the
			// MakeInterface operand), made inside the same loop iteration when the merge sits in a loop
			bv := a[0]
			if mi, ok := bv.(*ssa.MakeInterface); ok {
				bv = mi.X
			}
			fresh := false
			if dc, ok := bv.(*ssa.Call); ok && an.ShortCallee(&dc.Call) == "DeepCopy" {
				fresh = true
				if h := an.InnermostLoopHeader(cl.Block()); h != nil && an.InnermostLoopHeader(dc.Block()) != h {
					fresh = false // one copy shared by all iterations accumulates every entry's overrides
				}
			}
			r.Check(fresh, "SIBLING", sprintf("%s/merge#%d/base-is-a-private-copy", key, nm), c.InstrPos(cl), "the base of the merge is a fresh DeepCopy", "MergeCfg (which overlays INTO its first argument) is handed "+an.Path(bv)+" as base, not a DeepCopy() made for this merge: the defaults (or the cluster copy shared by all node entries) are modified in place and leak into later entries / later ConfigMap revisions")
		}
		if name != "calculateHostAppConfigMerged" {
			r.Check(okOrder && nm >= 2, "SIBLING", key+"/base-then-overlay", c.Pos(fn.Pos()), sprintf("%d MergeCfg calls take the layered copy as base and the parsed value as overlay", nm), "a MergeCfg call has base and overlay swapped (the more specific layer would be overwritten by the less specific one) or fewer than two merges are done")
			// (d) no-override arm inherits cluster strategy: every iteration stores into NodeStrategies[index].<Strategy>
			var stores []*ssa.Store
			for _, b := range fn.Blocks {
				for _, in := range b.Instrs {
					if st, ok := in.(*ssa.Store); ok {
						p := an.Path(st.Addr)
						if strings.Contains(p, "NodeStrategies") && strings.HasSuffix(p, "Strategy") {
							stores = append(stores, st)
						}
					}
				}
			}
			okInherit := len(stores) >= 1
			if okInherit {
				// from the loop body's first instruction, the next iteration is unreachable without a store
				isSt := map[ssa.Instruction]bool{}
				for _, s := range stores {
					isSt[s] = true
				}
				body := stores[0].Block()
				for body.Idom() != nil && !strings.Contains(body.Comment, "rangeindex.body") && !strings.Contains(body.Comment, "range") {
					body = body.Idom()
				}
				var hdr *ssa.BasicBlock
				for _, p := range body.Preds {
					if p.Dominates(body) {
						hdr = p
					}
				}
				if hdr != nil {
					reach := an.Explore(fn, &an.Start{Block: body, Index: 0}, nil, func(in ssa.Instruction) bool { return isSt[in] })
					if reach.BlockReached(hdr) {
						okInherit = false
					}
				}
			}
			r.Check(okInherit, "SIBLING", key+"/node-entry-inherits-cluster", c.Pos(fn.Pos()), "every node entry gets a merged strategy (its own overlay or the cluster copy)", "a node entry that sets nothing of this section is left without a strategy: the selected node would get a nil section instead of the cluster-wide values")
		}
		vec[name] = sprintf("old-on-error=%v merges=%d", okOld, nm)
	}
	r.Floor("SIBLING", "section merge functions", len(vec), 5)

	// syncConfig
	r.Rule("PATH/FLOW: in syncConfig each calculate*Merged call is made on every path to the cache update and its result is the only thing ever stored into the matching field of the new config (also when the call reported an error; no shortcut that keeps the previous merged section on the strength of remembered raw text); the cache field sloCfg is written only in updateCacheIfChanged")
	if fn := c.Fn(nodesloPkg, "SLOCfgHandlerForConfigMapEvent", "syncConfig"); fn != nil {
		want := map[string]string{"calculateResourceThresholdCfgMerged": "ThresholdCfgMerged", "calculateResourceQOSCfgMerged": "ResourceQOSCfgMerged", "calculateCPUBurstCfgMerged": "CPUBurstCfgMerged", "calculateSystemConfigMerged": "SystemCfgMerged", "calculateHostAppConfigMerged": "HostAppCfgMerged"}
		var names []string
		for k := range want {
			names = append(names, k)
		}
		sort.Strings(names)
		var upd ssa.CallInstruction
		for _, cl := range an.Calls(fn, false) {
			if an.ShortCallee(cl.Common()) == "updateCacheIfChanged" && !an.GuardErrNil(an.Guards(cl), func(*ssa.CallCommon) bool { return false }) {
				upd = cl
			}
		}
		for _, name := range names {
			var call ssa.CallInstruction
			for _, cl := range an.Calls(fn, false) {
				if an.ShortCallee(cl.Common()) == name {
					call = cl
				}
			}
			key := fkey(fn) + "/section/" + want[name]
			if call == nil {
				r.Fail("PATH", key, c.Pos(fn.Pos()), name+" is no longer called: this section is never produced")
				continue
			}
			res := extract(call.Value(), 0)
			var store *ssa.Store
			if res != nil {
				for _, ref := range *res.Referrers() {
					if st, ok := ref.(*ssa.Store); ok {
						if _, f, _, ok := an.FieldOf(st.Addr); ok && f == want[name] {
							store = st
						}
					}
				}
			}
			ok := store != nil && store.Block() == call.Block()
			if store != nil && !ok {
				// must not be conditional on the error
				ok = len(an.Guards(store)) == len(an.Guards(call))
			}
			oldArg := strings.HasSuffix(an.Path(call.Common().Args[0]), "."+want[name])
			// ... of the PREVIOUS config (the copy of the cache), not of the config under construction
			if store != nil {
				_, _, newBase, _ := an.FieldOf(store.Addr)
				fromCache := false
				for x := range backwardAll(call.Common().Args[0]) {
					if fa, isFA := x.(*ssa.FieldAddr); isFA {
						if _, f0, base0, ok0 := an.FieldOf(fa); ok0 && f0 == want[name] && base0 == newBase {
							oldArg = false
						}
					}
					if strings.Contains(an.Path(x), "cfgCache.sloCfg") {
						fromCache = true
					}
				}
				if !fromCache {
					oldArg = false
				}
			}
			// the section is recomputed from the ConfigMap in every sync: the call is on every path to the cache update,
			// and nothing else is ever stored into the section of the new config
			if upd != nil && !mustPass(call, upd) {
				ok = false
			}
			for _, b2 := range fn.Blocks {
				for _, in2 := range b2.Instrs {
					if st2, isSt := in2.(*ssa.Store); isSt && st2 != store {
						if owner, f2, base, isF := an.FieldOf(st2.Addr); isF && f2 == want[name] && store != nil {
							if _, _, base1, _ := an.FieldOf(store.Addr); base1 == base && strings.HasSuffix(owner, "SLOCfg") {
								ok = false
							}
						}
					}
				}
			}
			r.Check(ok && oldArg, "PATH", key, c.InstrPos(call), "result stored unconditionally; old section passed in", sprintf("section %s: result stored unconditionally into the matching field=%v, previous value of the same section passed as oldCfg=%v (a section that fails to parse would be reset instead of kept)", want[name], ok, oldArg))
		}
		r.Check(upd != nil, "PATH", fkey(fn)+"/cache-through-updateCacheIfChanged", c.Pos(fn.Pos()), "cache updated through updateCacheIfChanged", "syncConfig no longer hands the new config to updateCacheIfChanged")
	}
	nW := 0
	for _, fn := range c.PkgFuncs(nodesloPkg) {
		for _, b := range fn.Blocks {
			for _, in := range b.Instrs {
				if st, ok := in.(*ssa.Store); ok {
					if owner, f, _, ok := an.FieldOf(st.Addr); ok && f == "sloCfg" && strings.HasSuffix(owner, "SLOCfgCache") {
						nW++
						okW := fn.Name() == "updateCacheIfChanged" || strings.HasPrefix(fn.Name(), "New") || strings.HasPrefix(fn.Name(), "new")
						r.Check(okW, "WRITESET", fkey(fn)+"/writes-sloCfg", c.InstrPos(st), "cache written by updateCacheIfChanged / constructor", "the effective config cache is written outside updateCacheIfChanged")
					}
				}
			}
		}
	}

	// selectors
	r.Rule("PATH: in each get*Spec selector the node strategy is returned (or selected with break) inside the range loop under selector.Matches(labels)==true, and the cluster strategy is used only after the loop (first match wins)")
	for _, name := range []string{"getResourceThresholdSpec", "getResourceQOSSpec", "getCPUBurstConfigSpec", "getSystemConfigSpec", "getHostApplicationConfig"} {
		fn := c.Fn(nodesloPkg, "", name)
		if fn == nil {
			continue
		}
		key := "nodeslo." + name + "/first-match"
		var m ssa.CallInstruction
		for _, cl := range an.Calls(fn, false) {
			if cl.Common().IsInvoke() && cl.Common().Method.Name() == "Matches" {
				m = cl
			}
		}
		if m == nil {
			r.Fail("PATH", key, c.Pos(fn.Pos()), "selector.Matches not found")
			continue
		}
		// from behind Matches()==true the loop header (next iteration) must not be reachable
		var hdr *ssa.BasicBlock
		for d := m.Block(); d != nil; d = d.Idom() {
			for _, p := range d.Preds {
				if d.Dominates(p) && hdr == nil {
					hdr = d
				}
			}
		}
		reach := an.Explore(fn, an.After(m), an.Facts{m.Value(): an.True}, nil)
		again := hdr != nil && reach.Reached(m)
		r.Check(hdr != nil && !again, "PATH", key, c.InstrPos(m), "the first matching node entry wins", "after a node entry matched the loop continues to later entries: a later (or the last) match would win")
		// cluster strategy only after the loop: the loads of ClusterStrategy / Applications are not inside the loop
		inLoop := false
		for _, b := range fn.Blocks {
			for _, in := range b.Instrs {
				if fa, ok := in.(*ssa.FieldAddr); ok {
					if _, f, _, ok := an.FieldOf(fa); ok && f == "ClusterStrategy" && hdr != nil && hdr.Dominates(b) && an.ForwardReachBlocks(b)[hdr] {
						inLoop = true
					}
				}
			}
		}
		r.Check(!inLoop, "PATH", "nodeslo."+name+"/cluster-after-loop", c.Pos(fn.Pos()), "cluster-wide value only when no node entry matched", "the cluster strategy is consulted inside the node-entry loop")
	}

	// TABLE: every field of NodeSLOSpec produced
	r.Rule("TABLE: getNodeSLOSpec assigns every field of NodeSLOSpec")
	if fn := c.Fn(nodesloPkg, "NodeSLOReconciler", "getNodeSLOSpec"); fn != nil {
		stored := map[string]bool{}
		for f := range fieldsStored(fn, ".NodeSLOSpec") {
			stored[f] = true
		}
		pk := c.P.Pkg("apis/slo/v1alpha1")
		if pk != nil {
			if all := structFieldsOf(pk.Types.Scope().Lookup("NodeSLOSpec")); len(all) > 0 {
				var missing []string
				for _, f := range all {
					if !stored[f] {
						missing = append(missing, f)
					}
				}
				r.Check(len(missing) == 0, "TABLE", fkey(fn)+"/all-sections", c.Pos(fn.Pos()), sprintf("all %d sections are delivered", len(all)), "sections never delivered to the node: "+strings.Join(missing, ","))
				// the spec starts as a copy of the previous one: a section whose assignment can be skipped keeps the
				// previous node's / previous configuration's value
				r.Rule("PATH(no section survives): in getNodeSLOSpec the assignment of every NodeSLOSpec field is reached on every path to the return (the result starts as a copy of the old spec, so a skipped assignment delivers the old section - e.g. host applications of a node entry that no longer selects the node)")
				var skippable []string
				for _, f := range all {
					if !stored[f] {
						continue
					}
					fld := f
					reach := an.Explore(fn, nil, nil, func(in ssa.Instruction) bool {
						st, ok := in.(*ssa.Store)
						if !ok {
							return false
						}
						o, name, _, ok := an.FieldOf(st.Addr)
						return ok && name == fld && strings.HasSuffix(o, "NodeSLOSpec")
					})
					if len(reach.Returns()) > 0 {
						skippable = append(skippable, f)
					}
				}
				r.Check(len(skippable) == 0, "PATH", fkey(fn)+"/no-section-survives", c.Pos(fn.Pos()), "every section is assigned on every path", "the assignment of these sections can be skipped, so the previous spec's value is delivered: "+strings.Join(skippable, ","))
			}
		}
	}
}

func derivesOnlyFromParam(v ssa.Value, p *ssa.Parameter) bool {
	for _, l := range an.Sources(v, nil) {
		if l == ssa.Value(p) {
			continue
		}
		// value parameter spilled to a cell
		if a, ok := l.(*ssa.Alloc); ok {
			_ = a
		}
		return false
	}
	return true
}

// c20deliver: the layered value reaches the NodeSLO object and the cache never regresses.
func c20deliver(c *Ctx) {
	r := c.R
	r.Rule("EQ(deliver): in NodeSLOReconciler.Reconcile the test that decides whether the stored NodeSLO spec is replaced by the calculated one is a full, symmetric equality (reflect.DeepEqual or equality.Semantic.DeepEqual) of the two specs - not a one-sided comparison such as DeepDerivative, under which a setting that was removed (unset in the new spec) never leaves the node")
	if fn := c.Fn("pkg/slo-controller/nodeslo", "NodeSLOReconciler", "Reconcile"); fn != nil {
		var upd ssa.CallInstruction
		for _, cl := range an.Calls(fn, false) {
			if cl.Common().IsInvoke() && cl.Common().Method.Name() == "Update" {
				upd = cl
			}
		}
		eqName, okEq := "", false
		if upd != nil {
			for _, g := range an.Guards(upd) {
				v, _ := an.StripNot(g.Cond)
				if cl, isCl := v.(*ssa.Call); isCl {
					n := an.CalleeName(&cl.Call)
					if strings.Contains(n, "Deep") || strings.Contains(n, "Equal") {
						eqName = n
						okEq = n == "reflect.DeepEqual" || strings.HasSuffix(n, "Equalities).DeepEqual")
					}
				}
			}
		}
		r.Check(upd != nil && okEq, "EQ", fkey(fn)+"/spec-compared-in-full", c.Pos(fn.Pos()), "compared with "+eqName, "the update of the NodeSLO is decided by "+eqName+" (not a full symmetric equality): removals do not propagate to the node")
	}
	r.Rule("ERR(deliver): in NodeSLOReconciler.Reconcile, after Client.Create or Client.Update of the NodeSLO returned a non-nil error every reachable return carries a non-nil error (so the work queue retries; no error class is swallowed on the write path)")
	if fn := c.Fn("pkg/slo-controller/nodeslo", "NodeSLOReconciler", "Reconcile"); fn != nil {
		n := 0
		for _, cl := range an.Calls(fn, false) {
			if !cl.Common().IsInvoke() || cl.Value() == nil {
				continue
			}
			m := cl.Common().Method.Name()
			if m != "Update" && m != "Create" {
				continue
			}
			n++
			reach := an.Explore(fn, an.After(cl), an.Facts{cl.Value(): an.NonNil}, nil)
			bad := ""
			for _, ret := range reach.Returns() {
				for _, alt := range reach.Alts(ret) {
					if reach.EvalAlt(alt, 1) != an.NonNil {
						bad = c.InstrPos(ret)
					}
				}
			}
			r.Check(bad == "", "ERR", sprintf("%s/%s-error-returned", fkey(fn), m), c.InstrPos(cl), "a failed "+m+" is returned to the work queue", "after Client."+m+" failed Reconcile can return a nil error (at "+bad+"): the NodeSLO keeps the previous layered values and nothing retries")
		}
		r.Floor("ERR", "NodeSLO writes in Reconcile", n, 2)
	}
	r.Rule("ATOMIC(lazy init): in SLOCfgHandlerForConfigMapEvent.IsCfgAvailable the availability test, the ConfigMap fetch and syncConfig all run with cfgCache.lock held (one critical section): otherwise the ConfigMap event handler can apply a newer version in between and the stale one is applied on top of it")
	if fn := c.Fn("pkg/slo-controller/nodeslo", "SLOCfgHandlerForConfigMapEvent", "IsCfgAvailable"); fn != nil {
		locks := an.NewAnyLocks()
		var sites []ssa.Instruction
		for _, b := range fn.Blocks {
			for _, in := range b.Instrs {
				switch x := in.(type) {
				case *ssa.UnOp:
					if x.Op == token.MUL && strings.HasSuffix(an.Path(x), ".available") {
						sites = append(sites, x)
					}
				case ssa.CallInstruction:
					if sn := an.ShortCallee(x.Common()); sn == "GetConfigMapForCache" || sn == "syncConfig" {
						sites = append(sites, x)
					}
				}
			}
		}
		var bad []string
		for _, s := range sites {
			held := false
			for k := range locks.HeldAt(s) {
				if strings.HasSuffix(k, ".lock") {
					held = true
				}
			}
			if !held {
				bad = append(bad, c.InstrPos(s))
			}
		}
		r.Check(len(sites) >= 3 && len(bad) == 0, "ATOMIC", fkey(fn)+"/one-critical-section", c.Pos(fn.Pos()), sprintf("%d steps of the lazy initialisation run under cfgCache.lock", len(sites)), "steps of the lazy initialisation run without cfgCache.lock: "+strings.Join(bad, ", ")+" - a ConfigMap version fetched before a newer event was applied is applied after it, and the cache regresses")
	}
}
