package rules

import (
	"go/token"
	"strings"

	"golang.org/x/tools/go/ssa"

	"kverif/internal/an"
	"kverif/internal/load"
)

// rangeLoopOf: the range-over-map/slice loop whose Next yields v as key (index 1) or value (index 2).
func rangeLoopOf(v ssa.Value) (over ssa.Value, next *ssa.Next, idx int, ok bool) {
	e, isE := firstSource(v).(*ssa.Extract)
	if !isE {
		return nil, nil, 0, false
	}
	nx, isN := e.Tuple.(*ssa.Next)
	if !isN {
		return nil, nil, 0, false
	}
	rg, isR := nx.Iter.(*ssa.Range)
	if !isR {
		return nil, nil, 0, false
	}
	return rg.X, nx, e.Index, true
}

// c07inventory: a device-inventory update replaces the totals as a whole and recomputes free for every type, old and new.
func c07inventory(c *Ctx) {
	r := c.R
	r.Decides("an inventory refresh installs the totals built from the reported device object for this node under the node's lock; device types that vanished from the report get an empty total, and free is recomputed for every type of the new totals (so free = total - used also holds for vanished and for new types); an unhealthy device contributes an empty resource list, a healthy one its reported resources, filed under its own type and minor")
	const np = "(*" + load.Module + "/" + devPkg + ".nodeDevice)."
	r.Rule("PATH(refresh): in nodeDevice.resetDeviceTotal, inside a range over the old deviceTotal, a type for which the lookup in the new totals fails is given a fresh empty entry in the new totals; deviceTotal is then assigned the parameter; resetDeviceFree(key) is called for the key of a range over the new totals, not skippable inside the loop body, and the loop has no early exit")
	if fn := c.Fn(devPkg, "nodeDevice", "resetDeviceTotal"); fn != nil {
		key := fkey(fn)
		// vanished types
		vanished := false
		for _, b := range fn.Blocks {
			for _, in := range b.Instrs {
				mu, ok := in.(*ssa.MapUpdate)
				if !ok || !isParamOf(fn, mu.Map, 0) {
					continue
				}
				over, _, idx, ok := rangeLoopOf(mu.Key)
				if !ok || idx != 1 || !strings.HasSuffix(an.Path(over), ".deviceTotal") {
					continue
				}
				_, fresh := firstSource(mu.Value).(*ssa.MakeMap)
				missing := false
				for _, g := range an.Guards(mu) {
					if isCommaOk(g.Cond) && !g.Truth {
						if e, ok := g.Cond.(*ssa.Extract); ok {
							if lk, ok := e.Tuple.(*ssa.Lookup); ok && isParamOf(fn, lk.X, 0) && lk.Index == mu.Key {
								missing = true
							}
						}
					}
				}
				if fresh && missing {
					vanished = true
				}
			}
		}
		r.Check(vanished, "PATH", key+"/vanished-types-emptied", c.Pos(fn.Pos()), "a type missing from the report gets an empty total", "device types that vanished from the report are not given an empty total: their old free amounts stay in the ledger and devices that no longer exist can be handed out")
		// install
		installed := false
		var store *ssa.Store
		for _, b := range fn.Blocks {
			for _, in := range b.Instrs {
				if st, ok := in.(*ssa.Store); ok {
					if _, f, base, ok := an.FieldOf(st.Addr); ok && f == "deviceTotal" && base == ssa.Value(fn.Params[0]) && isParamOf(fn, st.Val, 0) {
						installed = true
						store = st
					}
				}
			}
		}
		// recompute for every type
		calls := an.CallsTo(fn, false, np+"resetDeviceFree")
		recomputed, why := false, sprintf("%d calls of resetDeviceFree", len(calls))
		if len(calls) == 1 && installed {
			cl := calls[0]
			over, nx, idx, ok := rangeLoopOf(cl.Common().Args[1])
			if ok && idx == 1 && isParamOf(fn, over, 0) {
				hdr := nx.Block()
				_, plain := cl.(*ssa.Call)
				start := &an.Start{Block: hdr.Succs[0], Index: 0}
				reach := an.Explore(fn, start, nil, func(in ssa.Instruction) bool { return in == ssa.Instruction(cl) })
				through := !reach.BlockReached(hdr) && len(reach.Returns()) == 0
				closed := loopClosed(hdr)
				after := mustPass(store, cl)
				recomputed = plain && through && closed && after
				why = sprintf("plain call=%v, not skippable in the body=%v, no early exit=%v, after the totals were installed=%v", plain, through, closed, after)
			} else {
				why = "the key does not range over the new totals"
			}
		}
		r.Check(installed && recomputed, "PATH", key+"/free-recomputed-for-every-type", c.Pos(fn.Pos()), "totals installed, free recomputed per type of the new totals", sprintf("after an inventory update free is not recomputed for every device type (totals installed from the parameter=%v; %s): free != total - used for the types left out", installed, why))
	}

	r.Rule("PATH(terminated pod): in nodeDeviceCache.updatePod, for a pod with a node that has terminated, deletePod is reached with the NEW version of the pod on every path (the allocation is recorded under the pod's name and released by the annotation of the version handed over; the old version of a coalesced update may carry neither node nor annotation)")
	if fn := c.Fn(devPkg, "nodeDeviceCache", "updatePod"); fn != nil {
		f := an.Facts{}
		nTerm, nNode := 0, 0
		for _, b := range fn.Blocks {
			for _, in := range b.Instrs {
				switch x := in.(type) {
				case *ssa.Call:
					if an.ShortCallee(&x.Call) == "IsPodTerminated" && len(x.Call.Args) == 1 && isParamOf(fn, x.Call.Args[0], 1) {
						f[x] = an.True
						nTerm++
					}
				case *ssa.BinOp:
					if s, isC := constString(x.Y); isC && s == "" && strings.HasSuffix(an.Path(x.X), ".Spec.NodeName") {
						for y := range backwardAll(x.X) {
							if isParamOf(fn, y, 1) {
								if x.Op == token.EQL {
									f[x] = an.False
								} else if x.Op == token.NEQ {
									f[x] = an.True
								}
								nNode++
							}
						}
					}
				}
			}
		}
		var del ssa.CallInstruction
		other := false
		reach := an.Explore(fn, nil, f, func(in ssa.Instruction) bool {
			if cl, ok := in.(ssa.CallInstruction); ok && an.ShortCallee(cl.Common()) == "deletePod" {
				if isParamOf(fn, cl.Common().Args[1], 1) {
					del = cl
					return true
				}
				other = true
			}
			return false
		})
		r.Check(nTerm > 0 && nNode > 0 && del != nil && len(reach.Returns()) == 0, "PATH", fkey(fn)+"/terminated=>deletePod(new)", c.Pos(fn.Pos()), "a terminated pod is released by its current version",
			sprintf("a terminated pod is not always released through deletePod(<new version>) (termination test found=%v, node test found=%v, call with the new version found=%v, another version released instead=%v): after a coalesced update the old version is unbound and the pod keeps its devices until the object is deleted", nTerm > 0, nNode > 0, del != nil, other))
	}

	r.Rule("PATH/FLOW(inventory entry): in nodeDeviceCache.updateNodeDevice the node's record is obtained (created if needed) for the nodeName parameter, its lock is taken, and resetDeviceTotal receives buildDeviceResources of the device parameter, under that lock; in buildDeviceResources the entry is filed under [deviceInfo.Type][*deviceInfo.Minor] of the same element whose Health decides between an empty list (unhealthy) and its Resources")
	if fn := c.Fn(devPkg, "nodeDeviceCache", "updateNodeDevice"); fn != nil {
		key := fkey(fn)
		resets := an.CallsTo(fn, false, np+"resetDeviceTotal")
		ok, why := len(resets) == 1, sprintf("%d calls of resetDeviceTotal", len(resets))
		if ok {
			cl := resets[0]
			b, _ := an.ResultOfCall(firstSource(cl.Common().Args[1]))
			built := b != nil && an.ShortCallee(&b.Call) == "buildDeviceResources" && isParamOf(fn, b.Call.Args[0], 1)
			g, _ := an.ResultOfCall(firstSource(cl.Common().Args[0]))
			rec := g != nil && an.ShortCallee(&g.Call) == "getNodeDevice" && isParamOf(fn, g.Call.Args[1], 0)
			create := rec && isTrueConst(g.Call.Args[2])
			locks := an.NewAnyLocks()
			held := false
			for k, w := range locks.HeldAt(cl) {
				if w && strings.Contains(k, "lock") {
					held = true
				}
			}
			// and the install cannot be skipped for a real event (no 'inventory unchanged' shortcut: invalidation zeroes the
			// totals but keeps what such a shortcut would compare)
			f := an.Facts{fn.Params[2]: an.NonNil}
			for _, b2 := range fn.Blocks {
				for _, in2 := range b2.Instrs {
					if bo, isBo := in2.(*ssa.BinOp); isBo && isParamOf(fn, bo.X, 0) {
						if s2, isC := constString(bo.Y); isC && s2 == "" {
							if bo.Op == token.EQL {
								f[bo] = an.False
							} else if bo.Op == token.NEQ {
								f[bo] = an.True
							}
						}
					}
				}
			}
			reach := an.Explore(fn, nil, f, func(in2 ssa.Instruction) bool { return in2 == ssa.Instruction(cl) })
			always := len(reach.Returns()) == 0
			ok = built && rec && create && held && always
			why = sprintf("totals built from the device parameter=%v, record of the nodeName parameter=%v created if needed=%v, under a write lock=%v, on every path=%v", built, rec, create, held, always)
		}
		r.Check(ok, "PATH", key+"/installs-reported-inventory", c.Pos(fn.Pos()), "the reported inventory of this node is installed under its lock", "the inventory update is wired wrongly: "+why)
	}
	if fn := c.Fn(devPkg, "", "buildDeviceResources"); fn != nil {
		key := fkey(fn)
		ok, n := true, 0
		why := ""
		for _, b := range fn.Blocks {
			for _, in := range b.Instrs {
				mu, isMU := in.(*ssa.MapUpdate)
				if !isMU || !strings.HasSuffix(mu.Value.Type().String(), "ResourceList") {
					continue
				}
				n++
				// key: minor of an element; outer map index: type of the same element
				elemOf := func(v ssa.Value, field string) ssa.Value {
					for x := range backwardAll(v) {
						if ld, ok := x.(*ssa.UnOp); ok && ld.Op == token.MUL {
							if _, f, base, ok := an.FieldOf(ld.X); ok && f == field {
								return rootOf(base)
							}
						}
					}
					return nil
				}
				em := elemOf(mu.Key, "Minor")
				var et ssa.Value
				// the inner map: looked up under the element's type (or, when it was missing, made and stored there)
				for _, ms := range cellSources(mu.Map) {
					if lk, ok := ms.(*ssa.Lookup); ok && et == nil {
						et = elemOf(lk.Index, "Type")
					}
				}
				sameElem := em != nil && et != nil && sameSource(em, et)
				// the value: empty under !Health, Resources of the element under Health
				valOK := true
				srcs := cellSources(mu.Value)
				nEmpty, nRes := 0, 0
				for _, s := range srcs {
					switch x := s.(type) {
					case *ssa.MakeMap:
						nEmpty++
					case *ssa.UnOp:
						if _, f, base, ok := an.FieldOf(x.X); ok && f == "Resources" && em != nil && sameSource(rootOf(base), em) {
							nRes++
						} else {
							valOK = false
						}
					default:
						valOK = false
					}
				}
				// which arm assigns which: the store of the reported resources is guarded by Health == true
				healthOK := false
				for _, b2 := range fn.Blocks {
					for _, in2 := range b2.Instrs {
						var val ssa.Value
						var gs []an.Guard
						switch x := in2.(type) {
						case *ssa.Store:
							val, gs = x.Val, an.Guards(x)
						default:
							continue
						}
						ld, isLd := val.(*ssa.UnOp)
						if !isLd {
							continue
						}
						if _, f, _, ok := an.FieldOf(ld.X); !ok || f != "Resources" {
							continue
						}
						for _, g := range gs {
							v, neg := an.StripNot(g.Cond)
							if hl, ok := v.(*ssa.UnOp); ok && hl.Op == token.MUL {
								if _, f, _, ok := an.FieldOf(hl.X); ok && f == "Health" && g.Truth != neg {
									healthOK = true
								}
							}
						}
					}
				}
				if !healthOK {
					// merged form (no cell): the phi edge carrying Resources comes from the Health arm
					if phi, ok := an.Origin(mu.Value).(*ssa.Phi); ok {
						for i, e := range phi.Edges {
							if ld, ok := e.(*ssa.UnOp); ok {
								if _, f, _, ok := an.FieldOf(ld.X); ok && f == "Resources" {
									gs := an.BlockGuards(phi.Block().Preds[i])
									if pi, ok := phi.Block().Preds[i].Instrs[len(phi.Block().Preds[i].Instrs)-1].(*ssa.If); ok {
										pc, neg := an.StripNot(pi.Cond)
										t := phi.Block().Preds[i].Succs[0] == phi.Block()
										if neg {
											t = !t
										}
										gs = append(gs, an.Guard{Cond: pc, Truth: t, If: pi})
									}
									for _, g := range gs {
										v, neg := an.StripNot(g.Cond)
										if hl, ok := v.(*ssa.UnOp); ok && hl.Op == token.MUL {
											if _, f, _, ok := an.FieldOf(hl.X); ok && f == "Health" && g.Truth != neg {
												healthOK = true
											}
										}
									}
								}
							}
						}
					}
				}
				if !(sameElem && valOK && nEmpty == 1 && nRes == 1 && healthOK) {
					ok = false
					why = sprintf("type and minor of the same element=%v, value is {} or that element's Resources=%v (%d/%d), Resources taken under Health=%v", sameElem, valOK, nEmpty, nRes, healthOK)
				}
			}
		}
		r.Check(ok && n == 1, "FLOW", key+"/per-device-entry", c.Pos(fn.Pos()), "totals[type][minor] = Resources of that device, {} when unhealthy", "the totals built from the report are wrong: "+why)
	}
}
