package rules

import (
	"go/token"
	"strings"

	"golang.org/x/tools/go/ssa"

	"kverif/internal/an"
	"kverif/internal/load"
)

func init() { Registry["C10"] = c10 }

const suppressPkg = "pkg/koordlet/qosmanager/plugins/cpusuppress"

// RunDiv applies the DIV rule to the functions selected by scope.
func (c *Ctx) RunDiv(rule string, fns []*ssa.Function, safe map[string]string) int {
	n := 0
	for _, fn := range fns {
		for _, d := range an.IntDivisions(fn) {
			n++
			key := fkey(fn) + "/" + d.Instr.Op.String() + " " + an.Path(d.Divisor)
			switch {
			case d.Proof != "":
				c.R.OK(rule, key, c.InstrPos(d.Instr), "divisor non-zero: "+d.Proof)
			case safe[key] != "":
				c.R.OK(rule, key, c.InstrPos(d.Instr), "confirmed safe by reading: "+safe[key])
			default:
				c.R.Fail(rule, key, c.InstrPos(d.Instr), "integer division/remainder whose divisor "+an.Path(d.Divisor)+" is neither a non-zero constant nor dominated by a test that implies it is non-zero: the operation panics when the divisor is 0")
			}
		}
	}
	return n
}

// PkgFuncs returns all source functions (incl. closures) declared in the package.
func (c *Ctx) PkgFuncs(rel string) []*ssa.Function {
	var out []*ssa.Function
	for _, fn := range c.P.AllFuncs() {
		pkg := fn.Pkg
		for f := fn; pkg == nil && f != nil; f = f.Parent() {
			pkg = f.Pkg
		}
		if pkg != nil && pkg.Pkg.Path() == load.Module+"/"+rel {
			out = append(out, fn)
		}
	}
	return out
}

func c10(c *Ctx) {
	r := c.R
	c10reservedIsMax(c)
	r.Decides("no integer division or remainder in the CPU-suppress computation can have a zero divisor (the 'never crashes even when no CPU is eligible' clause)")
	r.Decides("every processor appended to the LSR/LS candidate pools is outside the node-reserved and system-exclusive CPU sets, and the LS pool excludes LSE-owned CPUs; calcBECPUSet feeds all three exclusion sources into its filter")
	r.Decides("the CPU list applied to the BE cgroups derives only from calculateBESuppressCPUSetPolicy over those pools")
	r.Decides("the budget is only ever decreased by the three consumption terms (Sub, never Add) and replaced only by the configured minimum under a '<' test; the CFS quota derived from the budget passes through max(., beMinQuota)")
	r.Decides("every CPU id appended by the suppress policy is marked used in the same step and counted; no slice in cpusuppress/cpuset/helpers is created with a non-zero length and then filled by append only")
	r.Declines("the numeric value of the budget, the exact number and distinctness of the chosen CPUs, the step limit arithmetic")

	c10system(c)
	c10filters(c)
	c10cacheMode(c)
	c10floor(c)

	// ---- DIV
	r.Rule("DIV: every integer / and % in package cpusuppress (thorough: plus qosmanager/helpers and util/cpuset) has a divisor that is a non-zero constant or is dominated by a branch outcome implying non-zero for the same value / the same len(x)")
	fns := c.PkgFuncs(suppressPkg)
	if c.Thorough() {
		fns = append(fns, c.PkgFuncs("pkg/koordlet/qosmanager/helpers")...)
		fns = append(fns, c.PkgFuncs("pkg/util/cpuset")...)
	}
	n := c.RunDiv("DIV", fns, nil)
	r.Floor("DIV", "integer divisions in cpusuppress", n, 6)

	adj := c.Fn(suppressPkg, "CPUSuppress", "adjustByCPUSet")
	if adj != nil {
		c10pools(c, adj)
	}
	if fn := c.Fn(suppressPkg, "CPUSuppress", "calcBECPUSet"); fn != nil {
		c10calcBE(c, fn)
	}
	if fn := c.Fn(suppressPkg, "CPUSuppress", "calculateBESuppressCPU"); fn != nil {
		c10budget(c, fn)
	}
	if fn := c.Fn(suppressPkg, "CPUSuppress", "adjustByCfsQuota"); fn != nil {
		c10quota(c, fn)
	}
	if fn := c.Fn("pkg/koordlet/qosmanager/helpers", "", "CalculateFilterPodsUsed"); fn != nil {
		c10sysfloor(c, fn)
	}
	if fn := c.Fn(suppressPkg, "", "calculateBESuppressCPUSetPolicy"); fn != nil {
		c10progress(c, fn)
		c10distinct(c, fn)
	}
	if c.Thorough() {
		// sweep: every repo package (the same defect pattern anywhere a length feeds a limit)
		var all []string
		for _, pk := range c.P.Pkgs {
			all = append(all, strings.TrimPrefix(pk.PkgPath, load.Module+"/"))
		}
		c10makeAppend(c, all...)
	} else {
		c10makeAppend(c, suppressPkg, "pkg/util/cpuset", "pkg/koordlet/qosmanager/helpers")
	}
	c10alwaysApply(c)
	c10parse(c)
}

// c10progress: each selection loop of calculateBESuppressCPUSetPolicy starts with a fresh no-progress marker.
func c10progress(c *Ctx, fn *ssa.Function) {
	r := c.R
	r.Rule("PATH: in calculateBESuppressCPUSetPolicy every loop that stops on 'marker == needCPUs' (no CPU picked in a full round) enters with the marker freshly set to -1 (a marker left over from the previous loop would stop the next loop before it picked anything)")
	n := 0
	for _, b := range fn.Blocks {
		for _, in := range b.Instrs {
			bo, ok := in.(*ssa.BinOp)
			if !ok || bo.Op != token.EQL {
				continue
			}
			marker, ok1 := bo.X.(*ssa.Phi)
			need, ok2 := bo.Y.(*ssa.Phi)
			if !ok1 || !ok2 || marker.Block() != need.Block() {
				continue
			}
			// structural identification (no variable names): the marker is re-assigned from the counter in the loop
			fromNeed := false
			for _, e := range marker.Edges {
				if e == ssa.Value(need) {
					fromNeed = true
				}
				if p2, ok := e.(*ssa.Phi); ok {
					for _, e2 := range p2.Edges {
						if e2 == ssa.Value(need) {
							fromNeed = true
						}
					}
				}
			}
			if !fromNeed {
				continue
			}
			hdr := marker.Block()
			n++
			fresh := true
			entries := 0
			for i, p := range hdr.Preds {
				if hdr.Dominates(p) {
					continue // back edge
				}
				entries++
				if k, isC := constIntOf(marker.Edges[i]); !isC || k != -1 {
					fresh = false
				}
			}
			r.Check(fresh && entries >= 1, "PATH", sprintf("%s/fresh-progress-marker#%d", fkey(fn), n), c.InstrPos(bo), "the loop enters with a fresh marker",
				"a selection loop enters with the no-progress marker of the previous loop: when the pairing loop ended without progress the single-CPU loop stops at once and BE gets fewer CPUs than budgeted although eligible CPUs exist")
		}
	}
	r.Floor("PATH", "no-progress loops in calculateBESuppressCPUSetPolicy", n, 2)
}

// variadicElems returns the values stored into the variadic slice v (a Slice of a local array).
func variadicElems(v ssa.Value) []ssa.Value {
	sl, ok := v.(*ssa.Slice)
	if !ok {
		return nil
	}
	a, ok := sl.X.(*ssa.Alloc)
	if !ok {
		return nil
	}
	var out []ssa.Value
	for _, ref := range *a.Referrers() {
		if ia, ok := ref.(*ssa.IndexAddr); ok {
			for _, r2 := range *ia.Referrers() {
				if st, ok := r2.(*ssa.Store); ok {
					out = append(out, st.Val)
				}
			}
		}
	}
	return out
}

// c10distinct: every CPU handed out is marked used and counted.
func c10distinct(c *Ctx, fn *ssa.Function) {
	r := c.R
	r.Rule("PATH(distinct): in calculateBESuppressCPUSetPolicy each append of k CPU ids to the result is accompanied, in the same block, by usedCpu[id] = true for every appended id and by needCPUs decreasing by exactly k (an unmarked id can be picked again: the result contains a duplicate and BE silently gets one CPU less)")
	n := 0
	for _, cl := range an.Calls(fn, false) {
		if !an.IsBuiltinCall(cl.Value(), "append") || len(cl.Common().Args) != 2 {
			continue
		}
		elems := variadicElems(cl.Common().Args[1])
		isCPU := len(elems) > 0
		for _, e := range elems {
			if !strings.HasSuffix(an.Path(e), ".CPUID") {
				isCPU = false
			}
		}
		if !isCPU {
			continue
		}
		n++
		key := sprintf("%s/pick#%d", fkey(fn), n)
		marked := map[string]bool{}
		dec := int64(0)
		for _, in := range cl.Block().Instrs {
			switch x := in.(type) {
			case *ssa.MapUpdate:
				if x.Map.Type().String() == "map[int32]bool" && isTrueConst(x.Value) {
					marked[an.Path(x.Key)] = true
				}
			case *ssa.BinOp:
				if k, isC := constIntOf(x.Y); isC && x.Op == token.SUB {
					// the loop-carried counter: a phi that receives this difference back (directly or through a merge)
					if phi, ok := x.X.(*ssa.Phi); ok {
						back := false
						for _, e := range phi.Edges {
							if e == ssa.Value(x) {
								back = true
							}
							if p2, ok := e.(*ssa.Phi); ok {
								for _, e2 := range p2.Edges {
									if e2 == ssa.Value(x) {
										back = true
									}
								}
							}
						}
						if back {
							dec = k
						}
					}
				}
			}
		}
		var missing []string
		for _, e := range elems {
			if !marked[an.Path(e)] {
				missing = append(missing, an.Path(e))
			}
		}
		r.Check(len(missing) == 0, "PATH", key+"/marked", c.InstrPos(cl), sprintf("%d appended ids are marked used", len(elems)), "appended CPU id(s) not marked in usedCpu in the same step: "+strings.Join(missing, ", "))
		r.Check(dec == int64(len(elems)), "PATH", key+"/counted", c.InstrPos(cl), sprintf("needCPUs decreases by %d", len(elems)), sprintf("the step appends %d CPU ids but needCPUs decreases by %d", len(elems), dec))
	}
	r.Floor("PATH", "CPU picks in calculateBESuppressCPUSetPolicy", n, 2)
}

// c10makeAppend: a slice that is filled by append only must start empty.
func c10makeAppend(c *Ctx, pkgs ...string) {
	r := c.R
	r.Rule("SHAPE(make+append): in packages cpusuppress and util/cpuset no slice created by make([]T, n) with a non-zero length is filled only by append (never by index): the result would carry n leading zero values - for CPUSet.ToInt32Slice that doubles the length that adjustByCPUSet uses as the base of the per-round growth limit")
	n := 0
	for _, rel := range pkgs {
		for _, fn := range c.PkgFuncs(rel) {
			for _, b := range fn.Blocks {
				for _, in := range b.Instrs {
					mk, ok := in.(*ssa.MakeSlice)
					if !ok {
						continue
					}
					n++
					if k, isC := constIntOf(mk.Len); isC && k == 0 {
						continue
					}
					appended, filled := false, false
					seen := map[ssa.Value]bool{}
					var walk func(v ssa.Value)
					walkCell := func(cell ssa.Value) {
						// loads of the cell here and in closures that capture it
						var loads func(addr ssa.Value)
						loads = func(addr ssa.Value) {
							if addr.Referrers() == nil {
								return
							}
							for _, ref := range *addr.Referrers() {
								switch x := ref.(type) {
								case *ssa.UnOp:
									walk(x)
								case *ssa.MakeClosure:
									for i, bnd := range x.Bindings {
										if bnd == addr {
											loads(x.Fn.(*ssa.Function).FreeVars[i])
										}
									}
								}
							}
						}
						loads(cell)
					}
					walk = func(v ssa.Value) {
						if seen[v] || v.Referrers() == nil {
							return
						}
						seen[v] = true
						for _, ref := range *v.Referrers() {
							switch x := ref.(type) {
							case *ssa.Phi:
								walk(x)
							case *ssa.IndexAddr:
								for _, r2 := range *x.Referrers() {
									if st, ok := r2.(*ssa.Store); ok && st.Addr == ssa.Value(x) {
										filled = true
									}
								}
							case *ssa.Store:
								if x.Val == v {
									if _, isCell := x.Addr.(*ssa.Alloc); isCell {
										walkCell(x.Addr)
									} else if _, isFV := x.Addr.(*ssa.FreeVar); isFV {
										walkCell(x.Addr)
									}
								}
							case *ssa.Call:
								switch {
								case an.IsBuiltinCall(x, "append") && x.Call.Args[0] == v:
									appended = true
									walk(x)
								case an.IsBuiltinCall(x, "copy") && x.Call.Args[0] == v:
									filled = true
								}
							case *ssa.Slice:
								walk(x)
							}
						}
					}
					walk(mk)
					if appended {
						r.Check(filled, "SHAPE", fkey(fn)+"/make-then-append", c.InstrPos(mk), "", "make([]T, n) with a non-zero length is filled by append only: the slice starts with n zero values and ends up longer than the data")
					}
				}
			}
		}
	}
	r.Floor("SHAPE", "make([]T, ...) sites examined", n, 6)
	r.OK("SHAPE", "make+append/sweep", "", sprintf("%d make sites examined, none is a non-empty slice filled by append only", n))
}

// c10sysfloor: the system usage handed to the budget is floored by the node reservation on every path.
func c10sysfloor(c *Ctx, fn *ssa.Function) {
	r := c.R
	r.Rule("PATH: in helpers.CalculateFilterPodsUsed the returned system usage is either the value compared by 'v < nodeReserved' (outcome false) or nodeReserved itself, and that comparison is evaluated on every path to the return (it dominates it)")
	key := fkey(fn) + "/system>=reservation"
	var reserved *ssa.Parameter
	for _, p := range fn.Params {
		if p.Name() == "nodeReserved" {
			reserved = p
		}
	}
	var ret *ssa.Return
	for _, b := range fn.Blocks {
		if x, ok := b.Instrs[len(b.Instrs)-1].(*ssa.Return); ok {
			ret = x
		}
	}
	if reserved == nil || ret == nil || len(ret.Results) != 3 {
		r.Unknown("PATH", key, c.Pos(fn.Pos()), "signature changed (nodeReserved parameter / three results expected)")
		return
	}
	sys := ret.Results[2]
	fromReserved := false
	for _, l := range an.Sources(sys, nil) {
		if l == ssa.Value(reserved) {
			fromReserved = true
		}
	}
	dominated := false
	for _, b := range fn.Blocks {
		for _, in := range b.Instrs {
			if bo, ok := in.(*ssa.BinOp); ok && bo.Op == token.LSS && bo.Y == ssa.Value(reserved) {
				if b == ret.Block() || b.Dominates(ret.Block()) {
					// the compared value must be the alternative of the returned phi
					for _, l := range an.Sources(sys, nil) {
						if l == bo.X {
							dominated = true
						}
					}
					if phi, ok := sys.(*ssa.Phi); ok {
						for _, e := range phi.Edges {
							if e == bo.X {
								dominated = true
							}
						}
					}
				}
			}
		}
	}
	r.Check(fromReserved && dominated, "PATH", key, c.InstrPos(ret), "system usage is floored by the node reservation on every path",
		sprintf("the floor by the node reservation is not applied on every path (reservation can be returned: %v, comparison dominates the return: %v): with skewed metrics the system share drops below the reservation and the BE budget grows when non-BE usage grows", fromReserved, dominated))
}

// c10pools: guards of the pool appends and provenance of the applied CPU list.
func c10pools(c *Ctx, fn *ssa.Function) {
	r := c.R
	r.Rule("PATH: in adjustByCPUSet each append to a pool passed to calculateBESuppressCPUSetPolicy is dominated by IsSubsetOf(reserved)==false and IsSubsetOf(systemExclusive)==false; the pool used with a non-LSR share is additionally dominated by pool != LSE")
	const policy = load.Module + "/" + suppressPkg + ".calculateBESuppressCPUSetPolicy"
	calls := an.CallsTo(fn, false, policy)
	if len(calls) < 2 {
		r.Fail("PATH", fkey(fn)+"/pools", c.Pos(fn.Pos()), sprintf("expected two calls of calculateBESuppressCPUSetPolicy (LSR pool, LS pool), found %d", len(calls)))
		return
	}
	isAppend := func(v ssa.Value) bool { return an.IsBuiltinCall(v, "append") }
	nAppend := 0
	for i, cl := range calls {
		pool := cl.Common().Args[1]
		// appends contributing to this pool
		var appends []*ssa.Call
		seen := map[ssa.Value]bool{}
		var walk func(v ssa.Value)
		walk = func(v ssa.Value) {
			if seen[v] {
				return
			}
			seen[v] = true
			switch x := v.(type) {
			case *ssa.Phi:
				for _, e := range x.Edges {
					walk(e)
				}
			case *ssa.Call:
				if isAppend(x) {
					appends = append(appends, x)
					walk(x.Call.Args[0])
				}
			}
		}
		walk(pool)
		key := sprintf("%s/pool#%d", fkey(fn), i+1)
		if len(appends) == 0 {
			r.Fail("PATH", key, c.InstrPos(cl), "no append found that builds the pool passed to calculateBESuppressCPUSetPolicy: unknown idiom")
			continue
		}
		for _, ap := range appends {
			nAppend++
			gs := an.Guards(ap)
			var reserved, sysExcl, notLSE, isLSR bool
			for _, g := range gs {
				if call, _ := an.ResultOfCall(g.Cond); call != nil && an.ShortCallee(&call.Call) == "IsSubsetOf" && !g.Truth {
					arg := an.Path(call.Call.Args[len(call.Call.Args)-1])
					if strings.Contains(arg, "GetReservedCPUs") {
						reserved = true
					}
					if strings.Contains(arg, "getSystemQOSExclusiveCPU") {
						sysExcl = true
					}
				}
				if b, ok := g.Cond.(*ssa.BinOp); ok && (b.Op == token.EQL || b.Op == token.NEQ) {
					p := an.Path(b)
					if strings.Contains(p, `"LSE"`) && (b.Op == token.NEQ) == g.Truth {
						notLSE = true
					}
					if strings.Contains(p, `"LSR"`) && (b.Op == token.EQL) == g.Truth {
						isLSR = true
					}
				}
			}
			k := sprintf("%s/append", key)
			ok := reserved && sysExcl && (notLSE || isLSR)
			r.Check(ok, "PATH", k, c.InstrPos(ap), "append dominated by not-reserved, not-system-exclusive and (pool==LSR or pool!=LSE)",
				sprintf("a processor is added to a BE candidate pool without all exclusion tests: not-reserved=%v not-system-exclusive=%v lse-excluded=%v; dominating guards: %s", reserved, sysExcl, notLSE || isLSR, an.DescribeGuards(gs)))
		}
	}
	r.Floor("PATH", "pool appends in adjustByCPUSet", nAppend, 2)

	// FLOW: argument of applyBESuppressCPUSet
	r.Rule("FLOW: the CPU list passed to applyBESuppressCPUSet is built only from results of calculateBESuppressCPUSetPolicy (through append/phi), starting from nil")
	apply := an.CallsTo(fn, false, "(*"+load.Module+"/"+suppressPkg+".CPUSuppress).applyBESuppressCPUSet")
	if len(apply) != 1 {
		r.Fail("FLOW", fkey(fn)+"/applied-set", c.Pos(fn.Pos()), sprintf("expected one call of applyBESuppressCPUSet, found %d", len(apply)))
		return
	}
	arg := apply[0].Common().Args[1]
	leaves := an.Sources(arg, func(v ssa.Value) bool {
		if isAppend(v) {
			return true
		}
		_, isSlice := v.(*ssa.Slice)
		return isSlice
	})
	var bad []string
	nsrc := 0
	for _, l := range leaves {
		switch x := l.(type) {
		case *ssa.Const:
			continue
		case *ssa.Call:
			if an.IsCallTo(&x.Call, policy) {
				nsrc++
				continue
			}
		case *ssa.Builtin:
			continue
		}
		bad = append(bad, an.Path(l))
	}
	r.Check(len(bad) == 0 && nsrc >= 2, "FLOW", fkey(fn)+"/applied-set", c.InstrPos(apply[0]),
		sprintf("applied CPU list derives from %d calculateBESuppressCPUSetPolicy results only", nsrc),
		sprintf("applied CPU list has other sources than calculateBESuppressCPUSetPolicy: %v (policy results: %d)", bad, nsrc))
}

// c10calcBE: all three exclusion sources feed the exclusion map used by the filter.
func c10calcBE(c *Ctx, fn *ssa.Function) {
	r := c.R
	r.Rule("PATH: in calcBECPUSet the map consulted by the Filter closure is written from the system-exclusive set, the node-reserved set and the CPU sets of LSE pods; the closure keeps a CPU only if it is not in the map")
	var stores []*ssa.MapUpdate
	for _, b := range fn.Blocks {
		for _, in := range b.Instrs {
			if mu, ok := in.(*ssa.MapUpdate); ok {
				stores = append(stores, mu)
			}
		}
	}
	var sys, res, lse bool
	for _, mu := range stores {
		k := an.Path(mu.Key)
		if strings.Contains(k, "getSystemQOSExclusiveCPU") {
			sys = true
		}
		if strings.Contains(k, "GetReservedCPUs") {
			res = true
		}
		if strings.Contains(k, "GetResourceStatus") {
			// the LSE gate must dominate
			for _, g := range an.Guards(mu) {
				if p := an.Path(g.Cond); strings.Contains(p, `"LSE"`) && strings.Contains(p, "GetPodQoSClassRaw") {
					if b, ok := g.Cond.(*ssa.BinOp); ok && (b.Op == token.EQL) == g.Truth {
						lse = true
					}
				}
			}
		}
	}
	r.Check(sys && res && lse, "PATH", fkey(fn)+"/exclusion-sources", c.Pos(fn.Pos()), "system-exclusive, reserved and LSE-owned CPUs all enter the exclusion map",
		sprintf("exclusion map is not fed from all three sources: system-exclusive=%v reserved=%v LSE-pods=%v", sys, res, lse))
	// each of the two node-level sources enters the map on its own: whenever it was read without error (and is not
	// empty), a loop over exactly that set writes the map - whatever the other source holds
	r.Rule("PATH(independent sources): in calcBECPUSet, for the system-exclusive set (getSystemQOSExclusiveCPU) and for the node-reserved set (cpuset.Parse of GetReservedCPUs) separately: once the set was obtained without error and is not empty, no return is reachable without ToSliceNoSort() on that very set (not on a merge with the other one) feeding the exclusion map")
	for _, src := range []struct{ name, callee, arg string }{{"system-exclusive", "getSystemQOSExclusiveCPU", ""}, {"node-reserved", "Parse", "GetReservedCPUs"}} {
		var call *ssa.Call
		for _, cl := range an.Calls(fn, false) {
			cc, ok := cl.(*ssa.Call)
			if !ok || an.ShortCallee(&cc.Call) != src.callee {
				continue
			}
			if src.arg != "" && !strings.Contains(an.Path(cc.Call.Args[0]), src.arg) {
				continue
			}
			call = cc
		}
		key := fkey(fn) + "/exclusion-source/" + src.name
		if call == nil {
			r.Fail("PATH", key, c.Pos(fn.Pos()), "the "+src.name+" set is no longer read")
			continue
		}
		set := extract(call, 0)
		facts := an.Facts{extract(call, 1): an.Nil}
		onlyThis := func(v ssa.Value) bool {
			srcs := cellSources(v)
			if a, ok := v.(*ssa.Alloc); ok { // method receivers take the address of the local holding the set
				srcs = nil
				for _, ref := range *a.Referrers() {
					if st, ok := ref.(*ssa.Store); ok && st.Addr == ssa.Value(a) {
						srcs = append(srcs, cellSources(st.Val)...)
					}
				}
			}
			for _, s2 := range srcs {
				if s2 != set {
					// the zero value the local starts with does not count as another source
					if _, isC := s2.(*ssa.Const); isC {
						continue
					}
					if a2, isA := s2.(*ssa.Alloc); isA && a2.Comment == "complit" {
						continue
					}
					return false
				}
			}
			return len(srcs) > 0
		}
		for _, cl := range an.Calls(fn, false) {
			cc, ok := cl.(*ssa.Call)
			if ok && an.ShortCallee(&cc.Call) == "IsEmpty" && onlyThis(cc.Call.Args[0]) {
				facts[cc] = an.False
			}
		}
		var feed *ssa.Call
		reach := an.Explore(fn, an.After(call), facts, func(in ssa.Instruction) bool {
			cc, ok := in.(*ssa.Call)
			if ok && an.ShortCallee(&cc.Call) == "ToSliceNoSort" && onlyThis(cc.Call.Args[0]) {
				feed = cc
				return true
			}
			return false
		})
		// and what is ranged there is what is written
		writes := false
		if feed != nil {
			for _, mu := range stores {
				for x := range backwardAll(mu.Key) {
					if x == ssa.Value(feed) {
						writes = true
					}
				}
			}
		}
		r.Check(feed != nil && len(reach.Returns()) == 0 && writes, "PATH", key, c.InstrPos(call), "enters the exclusion map on its own", sprintf("the %s CPUs do not always enter the exclusion map (loop over exactly this set found=%v, unavoidable=%v, writes the map=%v): when both node-level sources are declared one of them is left to BE pods", src.name, feed != nil, feed != nil && len(reach.Returns()) == 0, writes))
	}
	// closure: Filter(func: return !m[ID]) or, equivalently, FilterNot(func: return m[ID])
	okClosure := false
	for _, cl := range an.Calls(fn, false) {
		sn := an.ShortCallee(cl.Common())
		if sn != "Filter" && sn != "FilterNot" {
			continue
		}
		args := cl.Common().Args
		mc, ok := args[len(args)-1].(*ssa.MakeClosure)
		if !ok {
			continue
		}
		a, _ := mc.Fn.(*ssa.Function)
		if a == nil {
			continue
		}
		all := true
		n := 0
		for _, alt := range an.ReturnAlts(a) {
			if len(alt.Results) != 1 {
				continue
			}
			n++
			v, neg := an.StripNot(alt.Results[0])
			_, isLookup := v.(*ssa.Lookup)
			if cst, isC := v.(*ssa.Const); isC && cst.Value != nil {
				// a constant arm of a merged return: "in the map" arms must yield the excluding constant
				continue
			}
			if !isLookup || neg != (sn == "Filter") {
				all = false
			}
		}
		if all && n > 0 {
			okClosure = true
		}
	}
	r.Check(okClosure, "PATH", fkey(fn)+"/filter-closure", c.Pos(fn.Pos()), "Filter keeps exactly the CPUs absent from the exclusion map", "the predicate handed to Filter / FilterNot does not keep exactly the CPUs absent from the exclusion map (Filter needs the negated lookup, FilterNot the plain one): unknown idiom or inverted filter")
}

// c10budget: polarity of the budget in the consumption inputs (structural form).
func c10budget(c *Ctx, fn *ssa.Function) {
	r := c.R
	r.Rule("MONO: in calculateBESuppressCPU each of the three results of CalculateFilterPodsUsed (non-BE pods, non-BE host apps, system) reaches the argument of a Quantity.Sub on the budget object and no Quantity.Add is applied to it; the returned quantity is the budget or the configured minimum selected under budget < minimum")
	used := an.CallsTo(fn, false, load.Module+"/pkg/koordlet/qosmanager/helpers.CalculateFilterPodsUsed")
	if len(used) != 1 {
		r.Fail("MONO", fkey(fn)+"/consumption", c.Pos(fn.Pos()), sprintf("expected one call of helpers.CalculateFilterPodsUsed, found %d", len(used)))
		return
	}
	// budget object: receiver of Sub calls
	var subs, adds []*ssa.Call
	for _, cl := range an.Calls(fn, false) {
		call, ok := cl.(*ssa.Call)
		if !ok {
			continue
		}
		switch an.CalleeName(cl.Common()) {
		case "(*k8s.io/apimachinery/pkg/api/resource.Quantity).Sub":
			subs = append(subs, call)
		case "(*k8s.io/apimachinery/pkg/api/resource.Quantity).Add":
			adds = append(adds, call)
		}
	}
	var budget ssa.Value
	sameRecv := true
	for _, s := range subs {
		if budget == nil {
			budget = s.Call.Args[0]
		} else if budget != s.Call.Args[0] {
			sameRecv = false
		}
	}
	r.Check(len(adds) == 0, "MONO", fkey(fn)+"/no-Add", c.Pos(fn.Pos()), "no Quantity.Add in the budget computation", "a Quantity.Add appears in the budget computation: some input now raises the budget")
	if budget == nil || !sameRecv {
		r.Fail("MONO", fkey(fn)+"/consumption", c.Pos(fn.Pos()), "the Sub calls do not share one receiver (budget object): unknown idiom")
		return
	}
	var exts [3]ssa.Value
	for _, ref := range *used[0].Value().Referrers() {
		if e, ok := ref.(*ssa.Extract); ok && e.Index < 3 {
			exts[e.Index] = e
		}
	}
	names := []string{"podNonBEUsed", "hostAppNonBEUsed", "systemUsed"}
	for i, e := range exts {
		key := fkey(fn) + "/consumption/" + names[i]
		if e == nil {
			r.Fail("MONO", key, c.InstrPos(used[0]), "result is discarded: this consumption no longer lowers the budget")
			continue
		}
		reach := an.ForwardReach(e, nil)
		hit := false
		for _, s := range subs {
			if reach[s.Call.Args[1]] {
				hit = true
			}
		}
		r.Check(hit, "MONO", key, c.InstrPos(used[0]), "flows into a Sub on the budget", "does not flow into any Sub on the budget: raising this consumption no longer lowers the budget")
	}
	// returned value: budget or min under LSS
	rets := 0
	okRet := true
	why := ""
	for _, b := range fn.Blocks {
		for _, in := range b.Instrs {
			ret, ok := in.(*ssa.Return)
			if !ok {
				continue
			}
			rets++
			for _, l := range an.Sources(ret.Results[0], nil) {
				if l == budget {
					continue
				}
				call, ok := l.(*ssa.Call)
				if !ok || an.ShortCallee(&call.Call) != "NewMilliQuantity" {
					okRet = false
					why = "returned value has an unexpected source " + an.Path(l)
					continue
				}
				// the replacement must be guarded by budget.MilliValue() < min
				g := an.Guards(call)
				found := false
				for _, x := range g {
					// budget.MilliValue() < minimum holds (also written minimum > budget.MilliValue(), or negated >=)
					rel, isRel := an.RelOf(x)
					if !isRel {
						continue
					}
					isBudget := func(v ssa.Value) bool { return backwardAll(v)[budget] }
					if (rel.Op == token.LSS && isBudget(rel.X) && !isBudget(rel.Y)) || (rel.Op == token.GTR && isBudget(rel.Y) && !isBudget(rel.X)) {
						found = true
					}
				}
				if !found {
					okRet = false
					why = "the replacement of the budget by the minimum is not guarded by budget < minimum; guards: " + an.DescribeGuards(g)
				}
			}
		}
	}
	r.Check(okRet && rets > 0, "MONO", fkey(fn)+"/floor-clamp", c.Pos(fn.Pos()), "returned quantity is the budget, or the minimum under budget<minimum", why)
}

// c10quota: the quota written derives from the budget only through max(., beMinQuota).
func c10quota(c *Ctx, fn *ssa.Function) {
	r := c.R
	r.Rule("FLOW: in adjustByCfsQuota the budget (cpuQuantity.MilliValue()) reaches the value formatted into the cfs_quota updater only through math.Max(., beMinQuota)")
	var src ssa.Value
	for _, cl := range an.Calls(fn, false) {
		if an.ShortCallee(cl.Common()) == "MilliValue" && cl.Value() != nil {
			if len(cl.Common().Args) > 0 && cl.Common().Args[0] == ssa.Value(fn.Params[1]) {
				src = cl.Value()
			}
		}
	}
	var sink ssa.Value
	for _, cl := range an.Calls(fn, false) {
		if an.CalleeName(cl.Common()) == "strconv.FormatInt" {
			sink = cl.Common().Args[0]
		}
	}
	key := fkey(fn) + "/quota-floor"
	if src == nil || sink == nil {
		r.Fail("FLOW", key, c.Pos(fn.Pos()), "cannot find cpuQuantity.MilliValue() or the strconv.FormatInt of the new quota: unknown idiom")
		return
	}
	isMax := func(v ssa.Value) bool {
		call, ok := v.(*ssa.Call)
		if !ok {
			return false
		}
		n := an.CalleeName(&call.Call)
		if n != "math.Max" && n != "builtin.max" {
			return false
		}
		for _, a := range call.Call.Args {
			if strings.Contains(an.Path(a), "2000") {
				return true
			}
		}
		return false
	}
	with := an.ForwardReach(src, nil)
	without := an.ForwardReach(src, isMax)
	r.Check(with[sink] && !without[sink], "FLOW", key, c.Pos(fn.Pos()), "budget reaches the written quota, and only through max(., beMinQuota)",
		sprintf("budget reaches written quota: %v; reaches it bypassing max(., beMinQuota): %v", with[sink], without[sink]))
}

// c10alwaysApply: a round that got as far as the candidate pools always rewrites the BE cpuset.
func c10alwaysApply(c *Ctx) {
	r := c.R
	r.Rule("PATH(always applied): in adjustByCPUSet, with every read succeeding, the topology present and at least one eligible CPU, no return is reachable without applyBESuppressCPUSet (the set of protected CPUs can change while the number of BE CPUs stays the same, so 'same size' is no reason to skip the round)")
	fn := c.Fn(suppressPkg, "CPUSuppress", "adjustByCPUSet")
	if fn == nil {
		return
	}
	f := an.Facts{}
	for _, b := range fn.Blocks {
		for _, in := range b.Instrs {
			switch x := in.(type) {
			case *ssa.Extract:
				if isErrorType(x.Type()) {
					f[x] = an.Nil
				}
			case *ssa.Call:
				if isErrorType(x.Type()) {
					if an.ShortCallee(&x.Call) != "applyBESuppressCPUSet" {
						f[x] = an.Nil
					}
				}
			case *ssa.BinOp:
				// fetched objects are present; at least one eligible CPU
				if (x.Op == token.EQL || x.Op == token.NEQ) && an.IsNilConst(x.Y) {
					if call, _ := an.ResultOfCall(x.X); call != nil && !isErrorType(x.X.Type()) {
						if x.Op == token.EQL {
							f[x] = an.False
						} else {
							f[x] = an.True
						}
					}
				}
				if k, isC := constIntOf(x.Y); isC && k == 0 && x.Op == token.EQL {
					if sum, ok := x.X.(*ssa.BinOp); ok && sum.Op == token.ADD {
						l1, ok1 := sum.X.(*ssa.Call)
						l2, ok2 := sum.Y.(*ssa.Call)
						if ok1 && ok2 && an.IsBuiltinCall(l1, "len") && an.IsBuiltinCall(l2, "len") {
							f[x] = an.False
						}
					}
				}
			}
		}
	}
	reach := an.Explore(fn, nil, f, func(in ssa.Instruction) bool {
		cl, ok := in.(ssa.CallInstruction)
		return ok && an.ShortCallee(cl.Common()) == "applyBESuppressCPUSet"
	})
	var bad []string
	for _, ret := range reach.Returns() {
		bad = append(bad, c.InstrPos(ret))
	}
	r.Check(len(f) >= 4 && len(bad) == 0, "PATH", fkey(fn)+"/always-applied", c.Pos(fn.Pos()), "every complete round applies the BE cpuset", "a round with all inputs available can return without applyBESuppressCPUSet (at "+strings.Join(bad, ",")+"): BE stays on CPUs that became protected (LSE pod, reservation, system QoS) since the last round")
}

// c10parse: the cpuset parser accepts every non-reversed range, including the single-CPU range "n-n".
func c10parse(c *Ctx) {
	r := c.R
	r.Rule("PATH(parser boundary): in cpuset.Parse no error return is guarded by a comparison of the two bounds of a range that holds when they are equal (start >= end, end <= start, start == end): \"3-3\" is a valid one-CPU range, and every caller treats a parse error as 'no protected CPUs'")
	fn := c.Fn("pkg/util/cpuset", "", "Parse")
	if fn == nil {
		return
	}
	isBound := func(v ssa.Value) bool {
		for _, s := range cellSources(v) {
			call, idx := an.ResultOfCall(s)
			if call == nil || idx != 0 || !strings.HasPrefix(an.CalleeName(&call.Call), "strconv.") {
				return false
			}
		}
		return true
	}
	bad := ""
	n := 0
	for _, alt := range an.ReturnAlts(fn) {
		if len(alt.Results) != 2 || an.IsNilConst(alt.Results[1]) {
			continue
		}
		n++
		for _, g := range alt.Guards {
			rel, ok := an.RelOf(g)
			if !ok || !isBound(rel.X) || !isBound(rel.Y) || rel.X == rel.Y {
				continue
			}
			if rel.Op == token.GEQ || rel.Op == token.LEQ || rel.Op == token.EQL {
				bad = c.InstrPos(alt.Ret)
			}
		}
	}
	r.Check(bad == "" && n >= 1, "PATH", fkey(fn)+"/single-cpu-range-accepted", c.Pos(fn.Pos()), "no error for equal bounds", "an error return at "+bad+" is taken when the two bounds of a range are equal: a single-CPU range such as 3-3 makes the whole list unparsable")
}
