package rules

import (
	"go/token"
	"regexp"
	"sort"
	"strings"

	"golang.org/x/tools/go/ssa"

	"kverif/internal/an"
	"kverif/internal/load"
)

func init() { Registry["C12"] = c12 }

const rexPkg = "pkg/koordlet/resourceexecutor"

// indexDirection classifies an index value: "up" (starts at 0, +1), "down" (starts at len-1, -1), "".
func indexDirection(idx ssa.Value) string {
	// go/ssa rotates "for i := range" loops: the index used may be phi+1
	if b, ok := idx.(*ssa.BinOp); ok && b.Op == token.ADD {
		if c, ok := constIntOf(b.Y); ok && c == 1 {
			if p, ok := b.X.(*ssa.Phi); ok && phiStartsAt(p, -1) && phiStep(p) == 1 {
				return "up"
			}
		}
	}
	// mirrored counter: (len(x) - 1) - n with n ascending goes down
	if b, ok := idx.(*ssa.BinOp); ok && b.Op == token.SUB && indexDirection(b.Y) == "up" {
		if top, ok := b.X.(*ssa.BinOp); ok && top.Op == token.SUB {
			if k, ok := constIntOf(top.Y); ok && k == 1 {
				if call, ok := top.X.(*ssa.Call); ok && an.IsBuiltinCall(call, "len") {
					return "down"
				}
			}
		}
	}
	p, ok := idx.(*ssa.Phi)
	if !ok {
		return ""
	}
	switch phiStep(p) {
	case 1:
		if phiStartsAt(p, 0) {
			return "up"
		}
	case -1:
		for _, e := range p.Edges {
			if b, ok := e.(*ssa.BinOp); ok && b.Op == token.SUB {
				if c, ok := constIntOf(b.Y); ok && c == 1 {
					if call, ok := b.X.(*ssa.Call); ok && an.IsBuiltinCall(call, "len") {
						return "down"
					}
				}
			}
		}
	}
	return ""
}

func constIntOf(v ssa.Value) (int64, bool) {
	c, ok := v.(*ssa.Const)
	if !ok || c.Value == nil || c.Value.Kind().String() != "Int" {
		return 0, false
	}
	return c.Int64(), true
}

func phiStartsAt(p *ssa.Phi, k int64) bool {
	for _, e := range p.Edges {
		if c, ok := constIntOf(e); ok && c == k {
			return true
		}
	}
	return false
}

// phiStep: +1 / -1 if one edge is phi±1 (possibly through the rotated form), else 0.
func phiStep(p *ssa.Phi) int {
	for _, e := range p.Edges {
		b, ok := e.(*ssa.BinOp)
		if !ok {
			continue
		}
		if c, ok := constIntOf(b.Y); ok && c == 1 && b.X == ssa.Value(p) {
			if b.Op == token.ADD {
				return 1
			}
			if b.Op == token.SUB {
				return -1
			}
		}
	}
	return 0
}

func c12(c *Ctx) {
	r := c.R
	c12static(c)
	c12failurePaths(c)
	c12oldSetFromCgroup(c)
	c12batchSequential(c)
	c10cacheMode(c) // both passes of the BE cpuset rewrite keep the cache describing the files: a pass that bypasses it makes the next loosening pass look unchanged
	r.Decides("LeveledUpdateBatch runs the merge pass over the levels in ascending order and the exact pass in descending order, merge pass first, both over the same batch")
	r.Decides("cpuset.cpus, cpu.cfs_quota_us and memory.min/low/high are registered with a mergeable updater and the matching merge condition")
	r.Decides("every write of LeveledUpdateBatch/updateByCache is dominated by needUpdate()==true (unchanged files are not rewritten); a merge write happens only when the merge condition says so and writes the merged value")
	r.Decides("the updater cached after a merge step carries the value the file now holds (so the exact pass still runs when merged != target)")
	r.Decides("merge conditions treat old and new value alike (unlimited symbols map to the maximum on both sides)")
	r.Decides("the BE cpuset rewrite writes the union top-down before the target bottom-up, and writeBECgroupsCPUSet iterates downward exactly when reversed")
	r.Decides("LeveledUpdateBatch runs both passes and the cache updates in one critical section; cgroupFileWriteIfDifferent skips the write only when the file already holds the target (string equality, the max symbol, or an equal cpuset)")
	r.Declines("validity of each intermediate file content (string / cpuset values) for arbitrary trees and values")

	if fn := c.Fn(rexPkg, "ResourceUpdateExecutorImpl", "LeveledUpdateBatch"); fn != nil {
		c12leveled(c, fn)
	}
	if fn := c.Fn(rexPkg, "ResourceUpdateExecutorImpl", "updateByCache"); fn != nil {
		ups := invokes(fn, "update")
		okN := len(ups) >= 1
		for _, u := range ups {
			if !an.GuardCall(an.Guards(u), true, func(cc *ssa.CallCommon) bool { return an.ShortCallee(cc) == "needUpdate" }) {
				okN = false
			}
		}
		r.Check(okN, "PATH", fkey(fn)+"/write<=needUpdate", c.Pos(fn.Pos()), "update() only under needUpdate()==true", "updateByCache writes without needUpdate()==true")
	}
	c12registry(c)
	if fn := c.Fn(rexPkg, "", "MergeFuncUpdateCgroup"); fn != nil {
		c12merge(c, fn)
	}
	c12conditions(c)
	c12cpuset(c)
	c12writeIfDifferent(c)
}

func invokes(fn *ssa.Function, method string) []ssa.CallInstruction {
	var out []ssa.CallInstruction
	for _, cl := range an.Calls(fn, false) {
		if cl.Common().IsInvoke() && cl.Common().Method.Name() == method {
			out = append(out, cl)
		}
	}
	return out
}

func c12leveled(c *Ctx, fn *ssa.Function) {
	r := c.R
	r.Rule("LOOPDIR: in LeveledUpdateBatch the level index that dominates MergeUpdate() starts at 0 and is incremented; the one that dominates update() starts at len-1 and is decremented; both index the parameter; the merge loop dominates the exact loop")
	key := fkey(fn)
	merges, updates := invokes(fn, "MergeUpdate"), invokes(fn, "update")
	if len(merges) != 1 || len(updates) != 1 {
		r.Fail("LOOPDIR", key+"/passes", c.Pos(fn.Pos()), sprintf("expected one MergeUpdate() and one update() call, found %d and %d", len(merges), len(updates)))
		return
	}
	param := fn.Params[1]
	dirOf := func(call ssa.CallInstruction) (string, *ssa.IndexAddr) {
		var best *ssa.IndexAddr
		for _, b := range fn.Blocks {
			for _, in := range b.Instrs {
				ia, ok := in.(*ssa.IndexAddr)
				if !ok || ia.X != ssa.Value(param) {
					continue
				}
				if ia.Block() == call.Block() || ia.Block().Dominates(call.Block()) {
					if best == nil || best.Block().Dominates(ia.Block()) {
						best = ia
					}
				}
			}
		}
		if best == nil {
			return "", nil
		}
		return indexDirection(best.Index), best
	}
	dm, im := dirOf(merges[0])
	du, iu := dirOf(updates[0])
	r.Check(dm == "up", "LOOPDIR", key+"/merge-pass-ascending", c.InstrPos(merges[0]), "merge pass goes from the top level down the tree (index 0 upwards)", "the merge pass does not iterate the levels in ascending order (direction: '"+dm+"')")
	r.Check(du == "down", "LOOPDIR", key+"/exact-pass-descending", c.InstrPos(updates[0]), "exact pass goes from the leaves up (index len-1 downwards)", "the exact pass does not iterate the levels in descending order (direction: '"+du+"')")
	if im != nil && iu != nil {
		r.Check(im.Block().Dominates(iu.Block()) || blockBefore(im.Block(), iu.Block()), "LOOPDIR", key+"/merge-before-exact", c.InstrPos(merges[0]), "merge pass precedes the exact pass",
			"the exact pass is not preceded by the merge pass")
	}
	r.Rule("ATOMIC: in LeveledUpdateBatch both passes run in one critical section: MergeUpdate(), update() and the ResourceCache stores are executed with LeveledUpdateLock held on every path (two batches on one subtree may not interleave between the merge pass of one and its exact pass)")
	{
		locks := an.NewAnyLocks()
		var sites []ssa.Instruction
		sites = append(sites, merges[0], updates[0])
		for _, cl := range an.Calls(fn, false) {
			if an.ShortCallee(cl.Common()) == "SetDefault" || an.ShortCallee(cl.Common()) == "Set" {
				sites = append(sites, cl)
			}
		}
		var bad []string
		for _, s := range sites {
			held := false
			for k, w := range locks.HeldAt(s) {
				if strings.HasSuffix(k, ".LeveledUpdateLock") && w {
					held = true
				}
			}
			if !held {
				bad = append(bad, c.InstrPos(s))
			}
		}
		r.Check(len(bad) == 0, "ATOMIC", key+"/one-critical-section", c.Pos(fn.Pos()), sprintf("%d write/cache sites run under LeveledUpdateLock", len(sites)), "these steps of the leveled update run without LeveledUpdateLock: "+strings.Join(bad, ", ")+" - another batch can run completely between this batch's merge pass and its exact pass, leaving a child above its parent")
	}
	r.Rule("PATH(cache follows the file): in LeveledUpdateBatch, from behind a successful update() (and a successful MergeUpdate()) the next updater is not reached, and the function does not return, without ResourceCache.SetDefault(..): needUpdate() decides from the cache whether a file is rewritten, so a write that is not cached leaves the cache describing an older content")
	for _, w := range []ssa.CallInstruction{merges[0], updates[0]} {
		f := an.Facts{}
		if v := w.Value(); v != nil {
			if e := extract(v, 1); e != nil {
				f[e] = an.Nil
			} else if isErrorType(v.Type()) {
				f[v] = an.Nil
			}
		}
		hdr := an.InnermostLoopHeader(w.Block())
		reach := an.Explore(fn, an.After(w), f, func(in ssa.Instruction) bool {
			cl, ok := in.(ssa.CallInstruction)
			return ok && (an.ShortCallee(cl.Common()) == "SetDefault" || an.ShortCallee(cl.Common()) == "Set")
		})
		ok := len(reach.Returns()) == 0 && (hdr == nil || !reach.BlockReached(hdr))
		r.Check(ok && len(f) == 1, "PATH", key+"/"+w.Common().Method.Name()+"=>cached", c.InstrPos(w), "a successful write is recorded in the cache", "after a successful "+w.Common().Method.Name()+"() the loop can go on (or the function return) without ResourceCache.SetDefault: the cache keeps the value of the merge pass (the old value on a shrink, the union on a cpuset shift), and a later rewrite to exactly that value is skipped as 'unchanged'")
	}
	r.Rule("PATH: MergeUpdate() and update() in LeveledUpdateBatch are dominated by needUpdate(updater)==true")
	for _, cl := range []ssa.CallInstruction{merges[0], updates[0]} {
		ok := an.GuardCall(an.Guards(cl), true, func(cc *ssa.CallCommon) bool { return an.ShortCallee(cc) == "needUpdate" })
		r.Check(ok, "PATH", key+"/"+cl.Common().Method.Name()+"<=needUpdate", c.InstrPos(cl), "write only when the cached value differs or is stale", "a write of the leveled update is not dominated by needUpdate()==true: unchanged files are rewritten")
	}
	// the updater returned by MergeUpdate is what gets cached
	r.Rule("FLOW: the updater stored in ResourceCache after the merge step is the one returned by MergeUpdate() when it is non-nil")
	okCache := false
	for _, cl := range an.Calls(fn, false) {
		if an.ShortCallee(cl.Common()) != "SetDefault" {
			continue
		}
		args := an.Args(cl.Common())
		for x := range backwardAll(args[len(args)-1]) {
			if e, ok := x.(*ssa.Extract); ok && e.Tuple == merges[0].Value() && e.Index == 0 {
				okCache = true
			}
		}
	}
	r.Check(okCache, "FLOW", key+"/cache-merged-updater", c.InstrPos(merges[0]), "cache holds the merged updater", "the merge step does not cache the updater returned by MergeUpdate()")
}

func blockBefore(a, b *ssa.BasicBlock) bool {
	return a.Index < b.Index && an.ForwardReachBlocks(a)[b]
}

func c12registry(c *Ctx) {
	r := c.R
	r.Rule("TABLE: in the package initialiser, cpuset.cpus is registered with NewMergeableCgroupUpdaterWithConditionFunc(., MergeConditionIfCPUSetIsLooser), cpu.cfs_quota_us with (., MergeConditionIfCFSQuotaIsLarger), memory.min/low/high with NewMergeableCgroupUpdaterIfValueLarger")
	want := map[string]string{
		"cpuset.cpus":      "MergeConditionIfCPUSetIsLooser",
		"cpu.cfs_quota_us": "MergeConditionIfCFSQuotaIsLarger",
		"memory.min":       "NewMergeableCgroupUpdaterIfValueLarger",
		"memory.low":       "NewMergeableCgroupUpdaterIfValueLarger",
		"memory.high":      "NewMergeableCgroupUpdaterIfValueLarger",
	}
	got := map[string]string{}
	re := regexp.MustCompile(`[a-z_]+\.[a-z_.]+`)
	// which registration of a name counts: Register keeps the first one when its store into the registry is guarded by
	// "not yet there", the last one otherwise
	firstWins := false
	if reg := c.Fn(rexPkg, "CgroupUpdaterFactoryImpl", "Register"); reg != nil {
		for _, b := range reg.Blocks {
			for _, in := range b.Instrs {
				if mu, ok := in.(*ssa.MapUpdate); ok && strings.HasSuffix(an.Path(mu.Map), ".registry") {
					for _, g := range an.Guards(mu) {
						if ex, ok := g.Cond.(*ssa.Extract); ok && ex.Index == 1 {
							if lk, ok := ex.Tuple.(*ssa.Lookup); ok && lk.CommaOk && strings.HasSuffix(an.Path(lk.X), ".registry") && !g.Truth {
								firstWins = true
							}
						}
					}
				}
			}
		}
	}
	inits := []*ssa.Function{}
	for _, fn := range c.PkgFuncs(rexPkg) {
		if strings.HasPrefix(fn.Name(), "init") {
			inits = append(inits, fn)
		}
	}
	sort.Slice(inits, func(i, j int) bool { return c.Pos(inits[i].Pos()) < c.Pos(inits[j].Pos()) })
	for _, fn := range inits {
		for _, cl := range an.Calls(fn, false) {
			if an.ShortCallee(cl.Common()) != "Register" {
				continue
			}
			args := an.Args(cl.Common())
			if len(args) < 3 {
				continue
			}
			ctor := an.Path(args[1])
			// elements of the variadic slice
			var names []string
			for x := range backwardAll(args[2]) {
				if a, ok := x.(*ssa.Alloc); ok {
					for _, ref := range *a.Referrers() {
						if ia, ok := ref.(*ssa.IndexAddr); ok {
							for _, r2 := range *ia.Referrers() {
								if st, ok := r2.(*ssa.Store); ok {
									names = append(names, re.FindAllString(an.Path(st.Val), -1)...)
								}
							}
						}
					}
				}
			}
			for _, n := range names {
				if _, dup := got[n]; dup && firstWins {
					continue // Register ignores a name that is already registered
				}
				got[n] = ctor
			}
		}
	}
	var keys []string
	for k := range want {
		keys = append(keys, k)
	}
	sort.Strings(keys)
	for _, k := range keys {
		ok := strings.Contains(got[k], want[k])
		r.Check(ok, "TABLE", "resourceexecutor.init/register/"+k, "", "registered with "+want[k], "hierarchical cgroup file "+k+" is registered with '"+got[k]+"' instead of a mergeable updater using "+want[k]+": the leveled rewrite would write it without the merge pass")
	}
	// a mergeable constructor installs a non-nil merge function
	if fn := c.Fn(rexPkg, "", "NewMergeableCgroupUpdaterWithCondition"); fn != nil {
		okM := false
		for _, f := range append([]*ssa.Function{fn}, fn.AnonFuncs...) {
			for _, b := range f.Blocks {
				for _, in := range b.Instrs {
					if st, ok := in.(*ssa.Store); ok {
						if _, fld, _, ok := an.FieldOf(st.Addr); ok && fld == "mergeUpdateFunc" && !an.IsNilConst(st.Val) {
							okM = true
						}
					}
				}
			}
		}
		r.Check(okM, "TABLE", fkey(fn)+"/installs-mergeUpdateFunc", c.Pos(fn.Pos()), "mergeable constructor sets mergeUpdateFunc", "the mergeable constructor does not install a merge function")
	}
}

func c12merge(c *Ctx, fn *ssa.Function) {
	r := c.R
	key := fkey(fn)
	r.Rule("PATH/FLOW: in MergeFuncUpdateCgroup the file write is dominated by needMerge==true and writes the merged value returned by the merge condition")
	writes := an.CallsTo(fn, false, load.Module+"/"+rexPkg+".cgroupFileWrite")
	conds := []ssa.CallInstruction{}
	for _, cl := range an.Calls(fn, false) {
		if cl.Common().StaticCallee() == nil && !cl.Common().IsInvoke() && cl.Common().Value == ssa.Value(fn.Params[1]) {
			conds = append(conds, cl)
		}
	}
	reads := an.CallsTo(fn, false, load.Module+"/"+rexPkg+".cgroupFileRead")
	if len(writes) != 1 || len(conds) != 1 || len(reads) != 1 {
		r.Fail("PATH", key+"/shape", c.Pos(fn.Pos()), sprintf("expected one cgroupFileWrite, one mergeCondition call and one cgroupFileRead, found %d, %d, %d", len(writes), len(conds), len(reads)))
		return
	}
	var merged, needMerge, oldStr ssa.Value
	for _, ref := range *conds[0].Value().Referrers() {
		if e, ok := ref.(*ssa.Extract); ok {
			switch e.Index {
			case 0:
				merged = e
			case 1:
				needMerge = e
			}
		}
	}
	for _, ref := range *reads[0].Value().Referrers() {
		if e, ok := ref.(*ssa.Extract); ok && e.Index == 0 {
			oldStr = e
		}
	}
	w := writes[0]
	okGuard := false
	for _, g := range an.Guards(w) {
		if g.Cond == needMerge && g.Truth {
			okGuard = true
		}
	}
	r.Check(okGuard, "PATH", key+"/write<=needMerge", c.InstrPos(w), "write only when the merge condition holds", "the merge write is not dominated by needMerge==true")
	r.Check(merged != nil && w.Common().Args[2] == merged, "FLOW", key+"/writes-merged-value", c.InstrPos(w), "the merged value is written", "the merge step writes "+an.Path(w.Common().Args[2])+" instead of the merged value")

	r.Rule("FLOW(cache coherence): on every return of MergeFuncUpdateCgroup that may carry a nil error, the returned updater is (a) a clone whose value field is set to the old content when nothing was written, (b) a clone whose value is set to the merged value when the write happened, or (c) the original updater only under mergedValue == value")
	n := 0
	for _, alt := range an.ReturnAlts(fn) {
		ret := alt.Ret
		_ = ret
		reach := an.Explore(fn, nil, nil, nil)
		if reach.EvalAt(alt.Results[1], ret) == an.NonNil || guardsSayNonNil(alt.Guards, alt.Results[1]) {
			continue
		}
		// a return whose error is the write's own result counts as a success return too
		n++
		k := sprintf("%s/returned-updater#%d", key, n)
		afterWrite := w.Block() == alt.Block || w.Block().Dominates(alt.Block)
		u := an.Origin(alt.Results[0])
		if ta, ok := u.(*ssa.TypeAssert); ok {
			u = ta.X
		}
		// clone?
		var cloneVal ssa.Value
		isClone := false
		for x := range backwardAll(alt.Results[0]) {
			if call, ok := x.(*ssa.Call); ok && call.Call.IsInvoke() && call.Call.Method.Name() == "Clone" {
				isClone = true
				// find store to .value of the asserted clone
				for v := range an.ForwardReach(call, nil) {
					if fa, ok := v.(*ssa.FieldAddr); ok {
						if _, f, _, ok := an.FieldOf(fa); ok && f == "value" {
							for _, ref := range *fa.Referrers() {
								if st, ok := ref.(*ssa.Store); ok && (st.Block() == alt.Block || st.Block().Dominates(alt.Block)) {
									cloneVal = st.Val
								}
							}
						}
					}
				}
			}
		}
		switch {
		case isClone && !afterWrite:
			r.Check(cloneVal == oldStr && oldStr != nil, "FLOW", k, c.InstrPos(ret), "no write: returned clone carries the old content", "no write happened but the returned updater carries "+an.Path(cloneVal)+" instead of the old file content")
		case isClone && afterWrite:
			r.Check(cloneVal == merged && merged != nil, "FLOW", k, c.InstrPos(ret), "write: returned clone carries the merged value", "after writing the merged value the returned updater carries "+an.Path(cloneVal))
		case !isClone && afterWrite:
			// original updater: only if merged == value
			okEq := false
			for _, g := range alt.Guards {
				if bo, ok := g.Cond.(*ssa.BinOp); ok && (bo.X == merged || bo.Y == merged) {
					if (bo.Op == token.NEQ && !g.Truth) || (bo.Op == token.EQL && g.Truth) {
						okEq = true
					}
				}
			}
			r.Check(okEq, "FLOW", k, c.InstrPos(ret), "original updater returned only when merged value == target value",
				"after writing the merged value the original updater (whose value is the target) is returned and cached: the exact pass sees 'already written' and skips the file, so a merged value that differs from the target (cpuset union) is never replaced")
		default:
			r.Fail("FLOW", k, c.InstrPos(ret), "a success return without write returns the original updater: the cache would claim the target value was written")
		}
	}
	r.Floor("FLOW", "success returns of MergeFuncUpdateCgroup", n, 2)
}

// c12conditions: symmetric treatment of old and new value.
func c12conditions(c *Ctx) {
	r := c.R
	r.Rule("MIRROR: in MergeConditionIfValueIsLarger the two operands of the final comparison are computed from newValue and oldValue by the same expression; in both IfValueIsLarger and IfCFSQuotaIsLarger each operand can take math.MaxInt64 (unlimited)")
	for _, name := range []string{"MergeConditionIfValueIsLarger", "MergeConditionIfCFSQuotaIsLarger"} {
		fn := c.Fn(rexPkg, "", name)
		if fn == nil {
			continue
		}
		var cmp *ssa.BinOp
		for _, b := range fn.Blocks {
			for _, in := range b.Instrs {
				if bo, ok := in.(*ssa.BinOp); ok && bo.Op == token.GTR {
					if _, isC := bo.Y.(*ssa.Const); !isC {
						cmp = bo
					}
				}
			}
		}
		if cmp == nil {
			r.Fail("MIRROR", fkey(fn)+"/final-comparison", c.Pos(fn.Pos()), "final comparison new > old not found")
			continue
		}
		hasMax := func(v ssa.Value) bool {
			for _, l := range an.Sources(v, nil) {
				if cst, ok := l.(*ssa.Const); ok && cst.Value != nil && cst.Value.ExactString() == "9223372036854775807" {
					return true
				}
			}
			return false
		}
		r.Check(hasMax(cmp.X) && hasMax(cmp.Y), "MIRROR", fkey(fn)+"/unlimited-on-both-sides", c.InstrPos(cmp), "both operands can be unlimited (MaxInt64)",
			sprintf("only one side maps the unlimited symbols to the maximum (new: %v, old: %v): an unlimited old value compares as small and the parent is lowered before its children", hasMax(cmp.X), hasMax(cmp.Y)))
		if name == "MergeConditionIfValueIsLarger" {
			norm := func(v ssa.Value, param string) string {
				return strings.ReplaceAll(an.Path(v), param, "$v")
			}
			a, b := norm(cmp.X, fn.Params[1].Name()), norm(cmp.Y, fn.Params[0].Name())
			r.Check(a == b, "MIRROR", fkey(fn)+"/same-expression", c.InstrPos(cmp), "old and new value are parsed by the same expression", "new value is computed as "+a+" but old value as "+b)
		}
	}
}

func c12cpuset(c *Ctx) {
	r := c.R
	r.Rule("PATH: in applyCPUSetWithNonePolicy every call writeBECgroupsCPUSet(.., false) writes MergeCPUSet(old,new) and is followed on every path to a return by a call writeBECgroupsCPUSet(.., true) that writes the target; writeBECgroupsCPUSet iterates with a descending index under isReversed==true and ascending otherwise")
	const p = "(*" + load.Module + "/" + suppressPkg + ".CPUSuppress)."
	if fn := c.Fn(suppressPkg, "CPUSuppress", "applyCPUSetWithNonePolicy"); fn != nil {
		calls := an.CallsTo(fn, false, p+"writeBECgroupsCPUSet")
		var fwd, rev []ssa.CallInstruction
		for _, cl := range calls {
			a := cl.Common().Args[3]
			if isTrueConst(a) {
				rev = append(rev, cl)
			} else {
				fwd = append(fwd, cl)
			}
		}
		key := fkey(fn)
		if len(rev) == 0 || len(fwd) == 0 {
			r.Fail("PATH", key+"/two-phase", c.Pos(fn.Pos()), sprintf("expected a top-down union write and a bottom-up target write, found %d and %d", len(fwd), len(rev)))
		} else {
			isRev := map[ssa.Instruction]bool{}
			for _, x := range rev {
				isRev[x] = true
			}
			for i, f := range fwd {
				fromMerge := false
				for x := range backwardAll(f.Common().Args[2]) {
					if call, ok := x.(*ssa.Call); ok && an.ShortCallee(&call.Call) == "MergeCPUSet" {
						fromMerge = true
					}
				}
				reach := an.Explore(fn, an.After(f), nil, func(in ssa.Instruction) bool { return isRev[in] })
				r.Check(fromMerge && len(reach.Returns()) == 0, "PATH", sprintf("%s/top-down-write#%d", key, i+1), c.InstrPos(f), "top-down write uses the union and is always followed by the bottom-up target write",
					sprintf("a top-down cpuset write uses the union: %v; can return without the bottom-up write of the target: %v (children would keep a cpuset outside their parent's)", fromMerge, len(reach.Returns()) > 0))
			}
			for i, x := range rev {
				dominated := false
				for _, f := range fwd {
					if f.Block() == x.Block() && instrIndex(f) < instrIndex(x) || f.Block().Dominates(x.Block()) {
						dominated = true
					}
				}
				noMerge := true
				for y := range backwardAll(x.Common().Args[2]) {
					if call, ok := y.(*ssa.Call); ok && an.ShortCallee(&call.Call) == "MergeCPUSet" {
						noMerge = false
					}
				}
				r.Check(dominated && noMerge, "PATH", sprintf("%s/bottom-up-write#%d", key, i+1), c.InstrPos(x), "bottom-up write of the target is preceded by the top-down union write",
					sprintf("bottom-up write preceded by the union write: %v; writes the plain target: %v", dominated, noMerge))
			}
		}
	}
	if fn := c.Fn(suppressPkg, "CPUSuppress", "writeBECgroupsCPUSet"); fn != nil {
		paths := fn.Params[1]
		flag := fn.Params[3]
		n := 0
		for _, b := range fn.Blocks {
			for _, in := range b.Instrs {
				ia, ok := in.(*ssa.IndexAddr)
				if !ok || ia.X != ssa.Value(paths) {
					continue
				}
				// the index, per way it can have been computed: either the loop variable of a loop chosen by the flag, or
				// a value selected inside one loop body (i = n; if reversed { i = len-1-n })
				type alt struct {
					idx    ssa.Value
					guards []an.Guard
				}
				alts := []alt{{ia.Index, an.Guards(ia)}}
				if phi, isPhi := ia.Index.(*ssa.Phi); isPhi && indexDirection(phi) == "" {
					alts = nil
					for k, e := range phi.Edges {
						pred := phi.Block().Preds[k]
						gs := append(an.Guards(ia), an.BlockGuards(pred)...)
						if pi, ok := pred.Instrs[len(pred.Instrs)-1].(*ssa.If); ok && len(pred.Succs) == 2 && pred.Succs[0] != pred.Succs[1] {
							pc, neg := an.StripNot(pi.Cond)
							t := pred.Succs[0] == phi.Block()
							if neg {
								t = !t
							}
							gs = append(gs, an.Guard{Cond: pc, Truth: t, If: pi})
						}
						alts = append(alts, alt{e, gs})
					}
				}
				for _, a := range alts {
					n++
					dir := indexDirection(a.idx)
					var under string
					for _, g := range a.guards {
						if g.Cond == ssa.Value(flag) {
							if g.Truth {
								under = "reversed"
							} else {
								under = "forward"
							}
						}
					}
					ok2 := (under == "reversed" && dir == "down") || (under == "forward" && dir == "up")
					r.Check(ok2, "LOOPDIR", sprintf("%s/%s", fkey(fn), under), c.InstrPos(ia), "iteration direction "+dir+" under "+under,
						"paths are iterated '"+dir+"' under isReversed="+under+": the write order does not match the requested direction")
				}
			}
		}
		// iterator form: "for _, p := range it" where it is slices.All(paths) or slices.Backward(paths), chosen by the flag
		iterDir := func(v ssa.Value) string {
			call, ok := v.(*ssa.Call)
			if !ok || len(call.Call.Args) != 1 || call.Call.Args[0] != ssa.Value(paths) {
				return ""
			}
			callee := call.Call.StaticCallee()
			if callee == nil {
				return ""
			}
			if o := callee.Origin(); o != nil {
				callee = o
			}
			if callee.Object() == nil || callee.Object().Pkg() == nil || callee.Object().Pkg().Path() != "slices" {
				return ""
			}
			switch callee.Name() {
			case "All", "Values":
				return "up"
			case "Backward":
				return "down"
			}
			return ""
		}
		for _, cl := range an.Calls(fn, false) {
			if cl.Common().IsInvoke() || cl.Common().StaticCallee() != nil || len(cl.Common().Args) != 1 {
				continue
			}
			if _, isYield := cl.Common().Args[0].(*ssa.MakeClosure); !isYield {
				continue
			}
			type alt struct {
				src    ssa.Value
				guards []an.Guard
			}
			alts := []alt{{cl.Common().Value, an.Guards(cl)}}
			if phi, isPhi := cl.Common().Value.(*ssa.Phi); isPhi {
				alts = nil
				for k, e := range phi.Edges {
					pred := phi.Block().Preds[k]
					gs := append(an.Guards(cl), an.BlockGuards(pred)...)
					if pi, ok := pred.Instrs[len(pred.Instrs)-1].(*ssa.If); ok && len(pred.Succs) == 2 && pred.Succs[0] != pred.Succs[1] {
						pc, neg := an.StripNot(pi.Cond)
						t := pred.Succs[0] == phi.Block()
						if neg {
							t = !t
						}
						gs = append(gs, an.Guard{Cond: pc, Truth: t, If: pi})
					}
					alts = append(alts, alt{e, gs})
				}
			}
			isIter := false
			for _, a := range alts {
				if iterDir(a.src) != "" {
					isIter = true
				}
			}
			if !isIter {
				continue
			}
			for _, a := range alts {
				n++
				dir := iterDir(a.src)
				var under string
				for _, g := range a.guards {
					if g.Cond == ssa.Value(flag) {
						under = "forward"
						if g.Truth {
							under = "reversed"
						}
					}
				}
				ok2 := (under == "reversed" && dir == "down") || (under == "forward" && dir == "up")
				r.Check(ok2, "LOOPDIR", sprintf("%s/%s", fkey(fn), under), c.InstrPos(cl), "iteration direction "+dir+" under "+under,
					"paths are iterated '"+dir+"' under isReversed="+under+": the write order does not match the requested direction")
			}
		}
		r.Floor("LOOPDIR", "path iterations in writeBECgroupsCPUSet", n, 2)
	}
}

// c12writeIfDifferent: a write is skipped only when the file already holds the target.
func c12writeIfDifferent(c *Ctx) {
	r := c.R
	r.Rule("PATH(skip reasons): in cgroupFileWriteIfDifferent, from behind a successful read of the current content, assuming value != current, not (current is the max symbol / value the max value) and not IsEqualStrCpus(current, value), no return is reachable without cgroupFileWrite (there is no other reason to report 'unchanged')")
	fn := c.Fn(rexPkg, "", "cgroupFileWriteIfDifferent")
	if fn == nil {
		return
	}
	key := fkey(fn)
	var read *ssa.Call
	for _, cl := range an.Calls(fn, false) {
		if an.ShortCallee(cl.Common()) == "cgroupFileRead" {
			read, _ = cl.(*ssa.Call)
		}
	}
	var value *ssa.Parameter
	for _, p := range fn.Params {
		if p.Name() == "value" {
			value = p
		}
	}
	if read == nil || value == nil {
		r.Unknown("PATH", key+"/skip-reasons", c.Pos(fn.Pos()), "read of the current content / value parameter not found")
		return
	}
	cur, rerr := extract(read, 0), extract(read, 1)
	f := an.Facts{}
	if rerr != nil {
		f[rerr] = an.Nil
	}
	for _, b := range fn.Blocks {
		for _, in := range b.Instrs {
			switch x := in.(type) {
			case *ssa.BinOp:
				if x.Op != token.EQL && x.Op != token.NEQ {
					continue
				}
				isCur := func(v ssa.Value) bool { return v == cur }
				isVal := func(v ssa.Value) bool { return v == ssa.Value(value) }
				_, cy := constString(x.Y)
				_, cx := constString(x.X)
				eq := (isCur(x.X) && isVal(x.Y)) || (isVal(x.X) && isCur(x.Y)) || (isCur(x.X) && cy) || (isCur(x.Y) && cx)
				if eq {
					if x.Op == token.EQL {
						f[x] = an.False
					} else {
						f[x] = an.True
					}
				}
			case *ssa.Call:
				if an.ShortCallee(&x.Call) == "IsEqualStrCpus" {
					f[x] = an.False
				}
			}
		}
	}
	reach := an.Explore(fn, an.After(read), f, func(in ssa.Instruction) bool {
		cl, ok := in.(ssa.CallInstruction)
		return ok && an.ShortCallee(cl.Common()) == "cgroupFileWrite"
	})
	var bad []string
	for _, ret := range reach.Returns() {
		bad = append(bad, c.InstrPos(ret))
	}
	r.Check(len(f) >= 3 && len(bad) == 0, "PATH", key+"/skip-reasons", c.InstrPos(read), "the write is skipped only for equal contents", sprintf("the write can be skipped although the file content differs from the target (return at %s; %d equalities recognised): the value is cached as written and the file keeps the stale content", strings.Join(bad, ","), len(f)))
}

// c12static: with the kubelet static policy the upper levels are loosened before the containers get their sets.
func c12static(c *Ctx) {
	r := c.R
	r.Decides("under the kubelet static CPU policy the BE qos/pod levels are recovered (loosened, top-down) before the container-level sets are written, on every path: a container set may contain CPUs the still-suppressed pod level does not have")
	r.Rule("ORDER(static policy): in CPUSuppress.applyBESuppressCPUSet, on the static-policy branch, applyCPUSetWithStaticPolicy is not reachable without recoverCPUSetIfNeed(PodCgroupPathRelativeDepth) having run first (a child cpuset must be contained in its parent's after every single write)")
	fn := c.Fn(suppressPkg, "CPUSuppress", "applyBESuppressCPUSet")
	if fn == nil {
		return
	}
	var rec, app ssa.CallInstruction
	for _, cl := range an.Calls(fn, false) {
		switch an.ShortCallee(cl.Common()) {
		case "recoverCPUSetIfNeed":
			rec = cl
		case "applyCPUSetWithStaticPolicy":
			app = cl
		}
	}
	key := fkey(fn) + "/loosen-parents-first"
	if rec == nil || app == nil {
		r.Fail("ORDER", key, c.Pos(fn.Pos()), sprintf("recoverCPUSetIfNeed found=%v, applyCPUSetWithStaticPolicy found=%v", rec != nil, app != nil))
		return
	}
	r.Check(mustPass(rec, app), "ORDER", key, c.InstrPos(app), "upper levels recovered before the containers are written", "the container-level cpusets can be written while the pod level still holds the suppressed set (recoverCPUSetIfNeed no longer precedes applyCPUSetWithStaticPolicy on every path): a container set outside its parent's set is rejected by the kernel or leaves an invalid hierarchy")
}
