// Package norm normalises a changed tree before the rules look at it: helper functions that do not exist on the
// reference tree (reference/known_funcs.txt) are inlined, at source level, into their in-package callers. A rule that
// is stated for one function ("in Permit, no Success return is reachable ...") then keeps seeing the whole logic after
// an extract-method refactoring, instead of raising a false alarm because part of the pattern moved into a helper.
//
// The rewrite is purely textual and local (a statement is replaced by: argument bindings, the helper's body with its
// returns turned into assignments + labelled breaks, and the original statement reading the result temporaries). It is
// applied only where it is obviously semantics-preserving; every other call is left alone. The result is handed to
// go/packages as an overlay; nothing is written into /repo and nothing is executed. On the reference tree there are
// no unknown functions, so the normaliser is a no-op there.
package norm

import (
	"bufio"
	"fmt"
	"go/ast"
	"go/token"
	"go/types"
	"os"
	"path/filepath"
	"regexp"
	"sort"
	"strings"

	"golang.org/x/tools/go/packages"
)

// FuncKey identifies a declared function: "<pkgpath>.<Recv>.<Name>" (Recv empty for plain functions).
func FuncKey(fn *types.Func) string {
	recv := ""
	if sig, ok := fn.Type().(*types.Signature); ok && sig.Recv() != nil {
		t := sig.Recv().Type()
		if p, ok := t.(*types.Pointer); ok {
			t = p.Elem()
		}
		if n, ok := t.(*types.Named); ok {
			recv = n.Obj().Name()
		}
	}
	pk := ""
	if fn.Pkg() != nil {
		pk = fn.Pkg().Path()
	}
	return pk + "." + recv + "." + fn.Name()
}

// Signatures holds, per known function, its signature (package-qualified type string).
var Signatures = map[string]string{}

func sigString(fn *types.Func) string {
	sig, ok := fn.Type().(*types.Signature)
	if !ok {
		return ""
	}
	q := func(p *types.Package) string { return p.Path() }
	var ps, rs []string
	for i := 0; i < sig.Params().Len(); i++ {
		t := types.TypeString(sig.Params().At(i).Type(), q)
		if sig.Variadic() && i == sig.Params().Len()-1 {
			t = "..." + strings.TrimPrefix(t, "[]")
		}
		ps = append(ps, t)
	}
	for i := 0; i < sig.Results().Len(); i++ {
		rs = append(rs, types.TypeString(sig.Results().At(i).Type(), q))
	}
	return "func(" + strings.Join(ps, ", ") + ") (" + strings.Join(rs, ", ") + ")"
}

func splitKey(k string) (pkg, recv, name string) {
	i := strings.LastIndex(k, ".")
	name = k[i+1:]
	k = k[:i]
	j := strings.LastIndex(k, ".")
	return k[:j], k[j+1:], name
}

// RenameFuncs gives a function of the reference tree that was renamed its reference name back: a known function that
// is missing from its package and an unknown function of the same package with the same receiver type and an identical
// signature are taken to be the same function when the match is unique in both directions.
func RenameFuncs(fset *token.FileSet, pkgs []*packages.Package, known map[string]bool, overlay map[string][]byte) *Result {
	res := &Result{Overlay: map[string][]byte{}}
	byPkg := map[string][]string{}
	for k := range known {
		pk, _, _ := splitKey(k)
		byPkg[pk] = append(byPkg[pk], k)
	}
	type occ struct {
		file       string
		start, end int
	}
	edits := map[string][]edit{}
	for _, pk := range pkgs {
		if pk.TypesInfo == nil || len(pk.Errors) > 0 {
			continue
		}
		declared := map[string]*types.Func{}
		for _, f := range pk.Syntax {
			for _, d := range f.Decls {
				if fd, ok := d.(*ast.FuncDecl); ok {
					if obj, ok := pk.TypesInfo.Defs[fd.Name].(*types.Func); ok {
						declared[FuncKey(obj)] = obj
					}
				}
			}
		}
		var missing []string
		for _, k := range byPkg[pk.PkgPath] {
			if declared[k] == nil {
				missing = append(missing, k)
			}
		}
		if len(missing) == 0 {
			continue
		}
		for _, mk := range missing {
			_, mrecv, mname := splitKey(mk)
			if mname == "init" || mname == "_" {
				continue
			}
			var cands []*types.Func
			for k, obj := range declared {
				if known[k] {
					continue
				}
				_, r, _ := splitKey(k)
				if r == mrecv && sigString(obj) == Signatures[mk] {
					cands = append(cands, obj)
				}
			}
			if len(cands) != 1 {
				continue
			}
			// unique the other way round too
			n := 0
			for _, mk2 := range missing {
				_, r2, _ := splitKey(mk2)
				if r2 == mrecv && Signatures[mk2] == Signatures[mk] {
					n++
				}
			}
			if n != 1 {
				continue
			}
			obj := cands[0]
			// rename every identifier that denotes obj, in all loaded packages
			for _, q := range pkgs {
				if q.TypesInfo == nil {
					continue
				}
				for id, o := range q.TypesInfo.Defs {
					if o == types.Object(obj) {
						name := fset.File(id.Pos()).Name()
						edits[name] = append(edits[name], edit{fset.Position(id.Pos()).Offset, fset.Position(id.End()).Offset, mname})
					}
				}
				for id, o := range q.TypesInfo.Uses {
					if o == types.Object(obj) {
						name := fset.File(id.Pos()).Name()
						edits[name] = append(edits[name], edit{fset.Position(id.Pos()).Offset, fset.Position(id.End()).Offset, mname})
					}
				}
			}
			res.Inlined = append(res.Inlined, fmt.Sprintf("%s is taken to be the reference function %s (same receiver and signature, unique match) and analysed under that name", obj.Name(), mname))
		}
	}
	for name, eds := range edits {
		content, ok := overlay[name]
		if !ok {
			b, err := os.ReadFile(name)
			if err != nil {
				continue
			}
			content = b
		}
		res.Overlay[name] = []byte(applyEdits(string(content), 0, eds))
	}
	return res
}

// ParamNames holds, per known function, the reference names of receiver and parameters ("recv,p1,p2").
var ParamNames = map[string]string{}

// LoadKnown reads the reference list (one "key<TAB>recv,p1,p2,..." per line).
func LoadKnown(path string) (map[string]bool, error) {
	f, err := os.Open(path)
	if err != nil {
		return nil, err
	}
	defer f.Close()
	out := map[string]bool{}
	sc := bufio.NewScanner(f)
	sc.Buffer(make([]byte, 1<<20), 1<<20)
	for sc.Scan() {
		l := strings.TrimSpace(sc.Text())
		if l == "" {
			continue
		}
		k, rest, _ := strings.Cut(l, "\t")
		names, sig, _ := strings.Cut(rest, "\t")
		out[k] = true
		ParamNames[k] = names
		Signatures[k] = sig
	}
	// the local closures of the reference tree ("<function key>$<variable>"): they are left alone
	if b, err := os.ReadFile(filepath.Join(filepath.Dir(path), "known_closures.txt")); err == nil {
		for _, l := range strings.Split(string(b), "\n") {
			if l = strings.TrimSpace(l); l != "" {
				out[l] = true
			}
		}
	}
	return out, sc.Err()
}

// closureDefs finds the local closures of a function: "x := func(..) {..}" with x used only in call position (and in
// "_ = x"), never reassigned, and not referring to itself.
func closureDefs(info *types.Info, fd *ast.FuncDecl) map[*types.Var]*ast.AssignStmt {
	out := map[*types.Var]*ast.AssignStmt{}
	ast.Inspect(fd.Body, func(x ast.Node) bool {
		as, ok := x.(*ast.AssignStmt)
		if !ok || as.Tok != token.DEFINE || len(as.Lhs) != 1 || len(as.Rhs) != 1 {
			return true
		}
		id, ok := as.Lhs[0].(*ast.Ident)
		if !ok {
			return true
		}
		if _, isLit := as.Rhs[0].(*ast.FuncLit); !isLit {
			return true
		}
		if v, ok := info.Defs[id].(*types.Var); ok {
			out[v] = as
		}
		return true
	})
	if len(out) == 0 {
		return out
	}
	// uses: only as the function of a call, or in "_ = x"
	okUse := map[*ast.Ident]bool{}
	ast.Inspect(fd.Body, func(x ast.Node) bool {
		switch y := x.(type) {
		case *ast.CallExpr:
			if id, ok := ast.Unparen(y.Fun).(*ast.Ident); ok {
				okUse[id] = true
			}
		case *ast.AssignStmt:
			if y.Tok == token.ASSIGN && len(y.Lhs) == 1 && len(y.Rhs) == 1 {
				if l, ok := y.Lhs[0].(*ast.Ident); ok && l.Name == "_" {
					if id, ok := y.Rhs[0].(*ast.Ident); ok {
						okUse[id] = true
					}
				}
			}
		}
		return true
	})
	ast.Inspect(fd.Body, func(x ast.Node) bool {
		id, ok := x.(*ast.Ident)
		if !ok {
			return true
		}
		v, ok := info.Uses[id].(*types.Var)
		if !ok {
			return true
		}
		if as, isC := out[v]; isC {
			lit := as.Rhs[0].(*ast.FuncLit)
			if !okUse[id] || (id.Pos() >= lit.Pos() && id.Pos() < lit.End()) {
				delete(out, v)
			}
		}
		return true
	})
	return out
}

// DeclaredClosures lists the local closures of the packages ("<function key>$<variable>").
func DeclaredClosures(pkgs []*packages.Package) []string {
	var out []string
	for _, pk := range pkgs {
		if pk.TypesInfo == nil {
			continue
		}
		for _, f := range pk.Syntax {
			for _, d := range f.Decls {
				fd, ok := d.(*ast.FuncDecl)
				if !ok || fd.Body == nil {
					continue
				}
				obj, ok := pk.TypesInfo.Defs[fd.Name].(*types.Func)
				if !ok {
					continue
				}
				for v := range closureDefs(pk.TypesInfo, fd) {
					out = append(out, FuncKey(obj)+"$"+v.Name())
				}
			}
		}
	}
	sort.Strings(out)
	return out
}

func declNames(fd *ast.FuncDecl) []*ast.Ident {
	var out []*ast.Ident
	if fd.Recv != nil && len(fd.Recv.List) == 1 && len(fd.Recv.List[0].Names) == 1 {
		out = append(out, fd.Recv.List[0].Names[0])
	} else {
		out = append(out, nil)
	}
	for _, f := range fd.Type.Params.List {
		if len(f.Names) == 0 {
			out = append(out, nil)
		}
		for _, nm := range f.Names {
			out = append(out, nm)
		}
	}
	return out
}

func namesString(fd *ast.FuncDecl) string {
	var ns []string
	for _, id := range declNames(fd) {
		if id == nil {
			ns = append(ns, "_")
		} else {
			ns = append(ns, id.Name)
		}
	}
	return strings.Join(ns, ",")
}

// RenameParams gives receivers and parameters of known functions their reference names back (a rule may name a
// parameter; a renamed parameter is the same parameter). Skipped where the reference name is taken by something else
// inside the function.
func RenameParams(fset *token.FileSet, pkgs []*packages.Package, known map[string]bool, overlay map[string][]byte) *Result {
	res := &Result{Overlay: map[string][]byte{}}
	for _, pk := range pkgs {
		if pk.TypesInfo == nil || len(pk.Errors) > 0 {
			continue
		}
		info := pk.TypesInfo
		for _, f := range pk.Syntax {
			var eds []edit
			for _, d := range f.Decls {
				fd, ok := d.(*ast.FuncDecl)
				if !ok || fd.Body == nil {
					continue
				}
				obj, ok := info.Defs[fd.Name].(*types.Func)
				if !ok || !known[FuncKey(obj)] {
					continue
				}
				ref := strings.Split(ParamNames[FuncKey(obj)], ",")
				cur := declNames(fd)
				if len(ref) != len(cur) {
					continue
				}
				ren := map[types.Object]string{}
				for i, id := range cur {
					if id == nil || id.Name == "_" || ref[i] == "_" || ref[i] == "" || id.Name == ref[i] {
						continue
					}
					if o := info.Defs[id]; o != nil {
						ren[o] = ref[i]
					}
				}
				if len(ren) == 0 {
					continue
				}
				// the reference names must be free inside the function
				taken := false
				want := map[string]bool{}
				for _, nm := range ren {
					want[nm] = true
				}
				// (inside the body and in nested function signatures; the function's own signature is outside the scope of its parameters)
				ast.Inspect(fd.Body, func(x ast.Node) bool {
					if id, ok := x.(*ast.Ident); ok && want[id.Name] {
						o := info.Uses[id]
						if o == nil {
							o = info.Defs[id]
						}
						if o != nil {
							if v, isVar := o.(*types.Var); !isVar || !v.IsField() {
								taken = true
							}
						}
					}
					return true
				})
				if taken {
					res.Skipped = append(res.Skipped, fmt.Sprintf("parameters of %s not renamed to the reference names: a reference name is in use", obj.Name()))
					continue
				}
				ast.Inspect(fd, func(x ast.Node) bool {
					if id, ok := x.(*ast.Ident); ok {
						o := info.Uses[id]
						if o == nil {
							o = info.Defs[id]
						}
						if nm, ok := ren[o]; ok && o != nil {
							eds = append(eds, edit{fset.Position(id.Pos()).Offset, fset.Position(id.End()).Offset, nm})
						}
					}
					return true
				})
				res.Inlined = append(res.Inlined, fmt.Sprintf("%s: parameters renamed to the reference names %v", obj.Name(), ref))
			}
			if len(eds) > 0 {
				name := fset.File(f.Pos()).Name()
				content, ok := overlay[name]
				if !ok {
					b, err := os.ReadFile(name)
					if err != nil {
						continue
					}
					content = b
				}
				res.Overlay[name] = []byte(applyEdits(string(content), 0, eds))
			}
		}
	}
	return res
}

// DeclaredFuncs lists the keys of all functions declared (with a body) in the packages.
func DeclaredFuncs(pkgs []*packages.Package) []string {
	var out []string
	for _, pk := range pkgs {
		if pk.TypesInfo == nil {
			continue
		}
		for _, f := range pk.Syntax {
			for _, d := range f.Decls {
				if fd, ok := d.(*ast.FuncDecl); ok {
					if obj, ok := pk.TypesInfo.Defs[fd.Name].(*types.Func); ok {
						out = append(out, FuncKey(obj)+"\t"+namesString(fd)+"\t"+sigString(obj))
					}
				}
			}
		}
	}
	sort.Strings(out)
	return out
}

type Result struct {
	Overlay  map[string][]byte
	Inlined  []string // "caller <- callee @file:line"
	Skipped  []string // calls of unknown helpers that were left alone, with the reason
	NewFuncs []string
}

type edit struct {
	start, end int
	text       string
}

func applyEdits(src string, base int, eds []edit) string {
	sort.Slice(eds, func(i, j int) bool { return eds[i].start > eds[j].start })
	for _, e := range eds {
		src = src[:e.start-base] + e.text + src[e.end-base:]
	}
	return src
}

type normalizer struct {
	fset    *token.FileSet
	pkg     *packages.Package
	src     map[string]string // filename -> content
	overlay map[string][]byte // the variant's files that differ from the disk
	newFn   map[*types.Func]*ast.FuncDecl
	synth   map[*types.Var]*types.Func // new local closures (x := func..{}) treated like unknown helpers
	cdef    map[ast.Stmt]string        // their defining statements -> variable name
	leaf    map[*types.Func]bool
	kind    map[*types.Func]string
	tail    ast.Stmt // the statement after which the current function returns (last statement of its body)
	inTail  bool
	counter int
	res     *Result
	file    *ast.File
	imports map[string]string // import path -> local name in the current file
}

// Normalize performs one bottom-up pass. Callers repeat (reload + Normalize) until nothing is inlined any more.
func Normalize(fset *token.FileSet, pkgs []*packages.Package, known map[string]bool, overlay map[string][]byte) *Result {
	res := &Result{Overlay: map[string][]byte{}}
	for _, pk := range pkgs {
		if pk.TypesInfo == nil || len(pk.Errors) > 0 {
			continue
		}
		n := &normalizer{fset: fset, pkg: pk, overlay: overlay, src: map[string]string{}, newFn: map[*types.Func]*ast.FuncDecl{}, synth: map[*types.Var]*types.Func{}, cdef: map[ast.Stmt]string{}, leaf: map[*types.Func]bool{}, res: res}
		for _, f := range pk.Syntax {
			for _, d := range f.Decls {
				fd, ok := d.(*ast.FuncDecl)
				if !ok || fd.Body == nil {
					continue
				}
				obj, ok := pk.TypesInfo.Defs[fd.Name].(*types.Func)
				if !ok {
					continue
				}
				if !known[FuncKey(obj)] {
					n.newFn[obj] = fd
					res.NewFuncs = append(res.NewFuncs, FuncKey(obj))
				}
				// local closures that the reference tree does not have (typically a hoisted duplicate block)
				for v, as := range closureDefs(pk.TypesInfo, fd) {
					if known[FuncKey(obj)+"$"+v.Name()] {
						continue
					}
					lit := as.Rhs[0].(*ast.FuncLit)
					sig, ok := pk.TypesInfo.TypeOf(lit).(*types.Signature)
					if !ok {
						continue
					}
					sf := types.NewFunc(lit.Pos(), pk.Types, v.Name(), sig)
					n.synth[v] = sf
					n.cdef[as] = v.Name()
					n.newFn[sf] = &ast.FuncDecl{Name: ast.NewIdent(v.Name()), Type: lit.Type, Body: lit.Body}
				}
			}
		}
		if len(n.newFn) == 0 {
			continue
		}
		// temporaries and labels of earlier passes keep their names: start numbering above them
		for _, f := range pk.Syntax {
			ast.Inspect(f, func(x ast.Node) bool {
				if id, ok := x.(*ast.Ident); ok && strings.HasPrefix(id.Name, "inl") {
					k := 0
					for _, ch := range id.Name[3:] {
						if ch < '0' || ch > '9' {
							break
						}
						k = k*10 + int(ch-'0')
					}
					if k > n.counter {
						n.counter = k
					}
				}
				return true
			})
		}
		// leaf = unknown helper whose own body calls no unknown helper (bottom-up: deeper levels in later passes)
		// "plain": can be inlined anywhere; "defer": only where the call is the last thing its function does (the
		// deferred calls then run at the same moment); "no": not at all
		kind := map[*types.Func]string{}
		for obj, fd := range n.newFn {
			k := "plain"
			ast.Inspect(fd.Body, func(x ast.Node) bool {
				switch y := x.(type) {
				case *ast.FuncLit:
					return false
				case *ast.DeferStmt:
					if k == "plain" {
						k = "defer"
					}
				case *ast.BranchStmt:
					if y.Tok == token.GOTO {
						k = "no"
					}
				}
				return true
			})
			if k == "defer" && fd.Type.Results != nil {
				for _, f := range fd.Type.Results.List {
					if len(f.Names) > 0 {
						k = "no" // a deferred call may change a named result after the return values were taken
					}
				}
			}
			if sig, isSig := obj.Type().(*types.Signature); isSig && sig.RecvTypeParams() != nil {
				k = "no"
			}
			kind[obj] = k
		}
		n.kind = kind
		for obj, fd := range n.newFn {
			leaf := kind[obj] != "no"
			ast.Inspect(fd.Body, func(x ast.Node) bool {
				if call, ok := x.(*ast.CallExpr); ok {
					// helpers that can be inlined anywhere go first (bottom-up); a helper with defer is inlined only in tail
					// position, possibly after its caller was inlined, so it does not hold its caller back
					if callee := n.calleeOf(call); callee != nil && n.newFn[callee] != nil && kind[callee] == "plain" && callee != obj {
						leaf = false
					}
				}
				return true
			})
			n.leaf[obj] = leaf
		}
		for _, f := range pk.Syntax {
			name := fset.File(f.Pos()).Name()
			hasC := false
			for _, im := range f.Imports {
				if im.Path.Value == `"C"` {
					hasC = true
				}
			}
			if hasC {
				continue
			}
			content, ok := overlay[name]
			if !ok {
				b, err := os.ReadFile(name)
				if err != nil {
					continue
				}
				content = b
			}
			n.src[name] = string(content)
			n.file = f
			n.imports = map[string]string{}
			for _, im := range f.Imports {
				if pn, ok := pk.TypesInfo.Implicits[im].(*types.PkgName); ok {
					n.imports[pn.Imported().Path()] = pn.Name()
				} else if im.Name != nil {
					if pn, ok := pk.TypesInfo.Defs[im.Name].(*types.PkgName); ok {
						n.imports[pn.Imported().Path()] = pn.Name()
					}
				}
			}
			var eds []edit
			for _, d := range f.Decls {
				fd, ok := d.(*ast.FuncDecl)
				if !ok || fd.Body == nil {
					continue
				}
				caller := fd.Name.Name
				n.tail = nil
				if len(fd.Body.List) > 0 {
					n.tail = fd.Body.List[len(fd.Body.List)-1]
				}
				eds = append(eds, n.rewriteBlock(fd.Body, caller)...)
			}
			if len(eds) > 0 {
				res.Overlay[name] = []byte(applyEdits(n.src[name], 0, eds))
			}
		}
	}
	sort.Strings(res.Inlined)
	sort.Strings(res.Skipped)
	sort.Strings(res.NewFuncs)
	return res
}

func (n *normalizer) off(p token.Pos) int { return n.fset.Position(p).Offset }

func (n *normalizer) text(a ast.Node) string {
	name := n.fset.File(a.Pos()).Name()
	return n.src[name][n.off(a.Pos()):n.off(a.End())]
}

func (n *normalizer) calleeOf(call *ast.CallExpr) *types.Func {
	var id *ast.Ident
	fun := ast.Unparen(call.Fun)
	// explicit instantiation of a generic helper: h[T](..)
	switch f := fun.(type) {
	case *ast.IndexExpr:
		fun = ast.Unparen(f.X)
	case *ast.IndexListExpr:
		fun = ast.Unparen(f.X)
	}
	switch f := fun.(type) {
	case *ast.Ident:
		id = f
	case *ast.SelectorExpr:
		id = f.Sel
	default:
		return nil
	}
	if v, ok := n.pkg.TypesInfo.Uses[id].(*types.Var); ok {
		if sf := n.synth[v]; sf != nil {
			return sf
		}
	}
	fn, _ := n.pkg.TypesInfo.Uses[id].(*types.Func)
	return fn
}

// target returns the unknown leaf helper called by e (possibly parenthesised / negated), or nil.
func (n *normalizer) target(e ast.Expr) (*ast.CallExpr, *types.Func, bool) {
	neg := false
	e = ast.Unparen(e)
	if u, ok := e.(*ast.UnaryExpr); ok && u.Op == token.NOT {
		neg = true
		e = ast.Unparen(u.X)
	}
	call, ok := e.(*ast.CallExpr)
	if !ok {
		return nil, nil, false
	}
	callee := n.calleeOf(call)
	if callee == nil || n.newFn[callee] == nil || !n.leaf[callee] {
		return nil, nil, false
	}
	if n.kind[callee] == "defer" && !n.inTail {
		return nil, nil, false
	}
	return call, callee, neg
}

// rewriteBlock returns the edits for the statements of a block (recursively).
func (n *normalizer) rewriteBlock(b *ast.BlockStmt, caller string) []edit {
	if b == nil {
		return nil
	}
	return n.rewriteList(b.List, caller)
}

func (n *normalizer) rewriteList(list []ast.Stmt, caller string) []edit {
	var eds []edit
	for i, s := range list {
		eds = append(eds, n.rewriteStmt(s, caller)...)
		if name, ok := n.cdef[s]; ok {
			// once its calls are inlined the closure variable is unused: keep the compiler quiet
			already := false
			if i+1 < len(list) {
				if as, ok := list[i+1].(*ast.AssignStmt); ok && len(as.Lhs) == 1 && len(as.Rhs) == 1 {
					if l, ok := as.Lhs[0].(*ast.Ident); ok && l.Name == "_" {
						if r, ok := as.Rhs[0].(*ast.Ident); ok && r.Name == name {
							already = true
						}
					}
				}
			}
			if !already {
				eds = append(eds, edit{n.off(s.End()), n.off(s.End()), "\n_ = " + name})
			}
		}
	}
	return eds
}

// nested collects the edits inside the sub-statements and function literals of s.
func (n *normalizer) nested(s ast.Node, caller string) []edit {
	var eds []edit
	// a clause of a switch / select is a statement list of its own
	switch y := s.(type) {
	case *ast.CaseClause:
		return n.rewriteList(y.Body, caller)
	case *ast.CommClause:
		return n.rewriteList(y.Body, caller)
	}
	ast.Inspect(s, func(x ast.Node) bool {
		if x == s || x == nil {
			return true
		}
		switch y := x.(type) {
		case *ast.BlockStmt:
			eds = append(eds, n.rewriteList(y.List, caller)...)
			return false
		case *ast.CaseClause:
			eds = append(eds, n.rewriteList(y.Body, caller)...)
			return false
		case *ast.CommClause:
			eds = append(eds, n.rewriteList(y.Body, caller)...)
			return false
		case *ast.IfStmt:
			eds = append(eds, n.rewriteStmt(y, caller)...)
			return false
		}
		return true
	})
	return eds
}

// leftmost returns the unknown-helper call that is evaluated first in e (before any other operand with a possible
// effect), or nil: it may be hoisted in front of the statement without changing the order of evaluation.
func (n *normalizer) leftmost(e ast.Expr) (*ast.CallExpr, *types.Func) {
	for {
		switch x := e.(type) {
		case *ast.ParenExpr:
			e = x.X
		case *ast.UnaryExpr:
			if x.Op == token.AND || x.Op == token.ARROW {
				return nil, nil
			}
			e = x.X
		case *ast.BinaryExpr:
			e = x.X
		case *ast.SelectorExpr:
			e = x.X
		case *ast.IndexExpr:
			e = x.X
		case *ast.StarExpr:
			e = x.X
		case *ast.CallExpr:
			if call, callee, neg := n.target(x); call != nil && !neg {
				return call, callee
			}
			// a method call on the result of a helper call: h(..).M(..) evaluates h first
			if sel, ok := x.Fun.(*ast.SelectorExpr); ok {
				if _, isPkg := n.pkg.TypesInfo.Uses[identOf(sel.X)].(*types.PkgName); !isPkg && !pureOperand(sel.X) {
					e = sel.X
					continue
				}
			}
			// f(a, b, h(..), ..) with f and the arguments before h plain names or literals: h is the first operand
			// whose evaluation can do anything (up to the position of a nil-dereference panic, which no rule observes)
			if !pureOperand(x.Fun) {
				return nil, nil
			}
			var next ast.Expr
			for _, a := range x.Args {
				if pureOperand(a) {
					continue
				}
				next = a
				break
			}
			if next == nil {
				return nil, nil
			}
			e = next
		default:
			return nil, nil
		}
	}
}

// pureOperand: evaluating e does nothing but read variables (names, literals, field/method selections of names).
func pureOperand(e ast.Expr) bool {
	switch x := e.(type) {
	case *ast.Ident, *ast.BasicLit:
		return true
	case *ast.ParenExpr:
		return pureOperand(x.X)
	case *ast.SelectorExpr:
		return pureOperand(x.X)
	case *ast.IndexExpr:
		// an explicit instantiation f[T], or an element read: nothing happens but a read
		return pureOperand(x.X) && pureOperand(x.Index)
	}
	return false
}

func identOf(e ast.Expr) *ast.Ident {
	id, _ := e.(*ast.Ident)
	return id
}

// hoist rewrites statement s (text range of node whole) so that the leftmost helper call in expr is evaluated into a
// temporary first.
func (n *normalizer) hoist(whole ast.Node, expr ast.Expr, caller string, extra []edit, wrap bool) ([]edit, bool) {
	call, callee := n.leftmost(expr)
	if call == nil {
		return nil, false
	}
	pre, temps, ok := n.inline(call, callee, caller)
	if !ok || len(temps) != 1 {
		return nil, false
	}
	inner := append(extra, edit{n.off(call.Pos()), n.off(call.End()), temps[0]})
	body := applyEdits(n.text(whole), n.off(whole.Pos()), inner)
	txt := pre + "\n" + body
	if wrap {
		txt = "{\n" + txt + "\n}"
	}
	return []edit{{n.off(whole.Pos()), n.off(whole.End()), txt}}, true
}

// allPure: every left-hand side is a plain name or a selection of names (x.f.g = ..): evaluating it reads only.
func allPure(es []ast.Expr) bool {
	for _, e := range es {
		if !pureOperand(e) {
			return false
		}
	}
	return true
}

func allIdents(es []ast.Expr) bool {
	for _, e := range es {
		if _, ok := e.(*ast.Ident); !ok {
			return false
		}
	}
	return true
}

func (n *normalizer) rewriteStmt(s ast.Stmt, caller string) []edit {
	type snap struct{ inl, skp, cnt int }
	take := func() snap { return snap{len(n.res.Inlined), len(n.res.Skipped), n.counter} }
	restore := func(x snap) {
		n.res.Inlined = n.res.Inlined[:x.inl]
		n.res.Skipped = n.res.Skipped[:x.skp]
		n.counter = x.cnt
	}
	_, isRet := s.(*ast.ReturnStmt)
	_, isExpr := s.(*ast.ExprStmt)
	n.inTail = isRet || (isExpr && s == n.tail)
	defer func() { n.inTail = false }()
	s0 := take()
	eds, matched := n.rewriteStmt1(s, caller)
	if matched {
		return eds
	}
	// second chance: the helper call is the first thing the statement evaluates
	var expr ast.Expr
	wrap := true
	switch st := s.(type) {
	case *ast.ExprStmt:
		expr = st.X
	case *ast.AssignStmt:
		if len(st.Rhs) == 1 && (allIdents(st.Lhs) || allPure(st.Lhs)) {
			expr = st.Rhs[0]
			wrap = st.Tok != token.DEFINE
		} else if len(st.Lhs) == 1 && st.Tok != token.DEFINE {
			// h(x)[k] = v, h(x).f = v, *h(x) = v: the operands of the left-hand side are evaluated first, left to right
			if call, _ := n.leftmost(st.Lhs[0]); call != nil {
				expr = st.Lhs[0]
			}
		}
	case *ast.ReturnStmt:
		if len(st.Results) >= 1 {
			expr = st.Results[0]
		}
	case *ast.IfStmt:
		if st.Init == nil {
			expr = st.Cond
		} else if in, ok := st.Init.(*ast.AssignStmt); ok && len(in.Rhs) == 1 {
			// if err := f(a, h(x)); err != nil {..}: the init statement is what the if evaluates first
			expr = in.Rhs[0]
		}
	}
	if expr != nil {
		if call, _ := n.leftmost(expr); call != nil {
			restore(s0)
			var inner []edit
			if st, ok := s.(*ast.IfStmt); ok {
				inner = append(inner, n.rewriteBlock(st.Body, caller)...)
				switch e := st.Else.(type) {
				case *ast.BlockStmt:
					inner = append(inner, n.rewriteBlock(e, caller)...)
				case *ast.IfStmt:
					inner = append(inner, n.rewriteStmt(e, caller)...)
				}
			}
			if h, ok := n.hoist(s, expr, caller, inner, wrap); ok {
				return h
			}
			restore(s0)
			eds, _ = n.rewriteStmt1(s, caller)
		}
	}
	eds = append(eds, n.pureSubst(s, caller)...)
	n.reportUnmatched(s)
	return eds
}

var preLine = regexp.MustCompile(`^var (inl\d+_a\d+)( [^=]+?)? = (.*)$`)

// pureSubst: a call of an unknown one-expression boolean predicate whose arguments (and receiver) are plain names,
// literals or selections of names is replaced where it stands by the predicate's expression with the arguments
// substituted - anywhere in the statement's own expressions (the operands of && and ||, call arguments, the cases of a
// switch). Pure arguments may be evaluated later, or more than once, without any difference.
func (n *normalizer) pureSubst(s ast.Stmt, caller string) []edit {
	var eds []edit
	var visit func(x ast.Node) bool
	try := func(y *ast.CallExpr) bool {
		call, callee, _ := n.target(y)
		if call == nil || call != y {
			return false
		}
		for _, a := range call.Args {
			if !pureOperand(a) {
				return false
			}
		}
		if sel, ok := ast.Unparen(call.Fun).(*ast.SelectorExpr); ok && !pureOperand(sel.X) {
			return false
		}
		inl, skp, cnt := len(n.res.Inlined), len(n.res.Skipped), n.counter
		undo := func() {
			n.res.Inlined = n.res.Inlined[:inl]
			n.res.Skipped = n.res.Skipped[:skp]
			n.counter = cnt
		}
		pre, temps, ok := n.inline(call, callee, caller)
		if !ok || len(temps) != 1 || !strings.HasPrefix(temps[0], "(") {
			undo()
			return false
		}
		text := temps[0]
		for _, line := range strings.Split(strings.TrimSpace(pre), "\n") {
			if line == "" {
				continue
			}
			m := preLine.FindStringSubmatch(line)
			if m == nil {
				undo()
				return false
			}
			repl := "(" + m[3] + ")"
			if t := strings.TrimSpace(m[2]); t != "" {
				repl = "(" + t + ")(" + m[3] + ")"
			}
			text = regexp.MustCompile(`\b`+m[1]+`\b`).ReplaceAllLiteralString(text, repl)
		}
		if os.Getenv("KVERIF_DEBUG") != "" {
			fmt.Fprintf(os.Stderr, "puresubst %s: pre=%q text=%q\n", callee.Name(), pre, text)
		}
		eds = append(eds, edit{n.off(call.Pos()), n.off(call.End()), text})
		return true
	}
	visit = func(x ast.Node) bool {
		if x == nil {
			return true
		}
		switch y := x.(type) {
		case *ast.FuncLit:
			return false
		case *ast.SwitchStmt:
			// the clauses are statements of their own (visited as s below); here only the tag
			if x == ast.Node(s) && y.Tag != nil {
				ast.Inspect(y.Tag, visit)
			}
			return false
		case *ast.CaseClause:
			if x == ast.Node(s) {
				for _, e := range y.List {
					ast.Inspect(e, visit)
				}
			}
			return false
		case *ast.BlockStmt, *ast.CommClause:
			return x == ast.Node(s)
		case *ast.IfStmt, *ast.ForStmt, *ast.RangeStmt, *ast.TypeSwitchStmt, *ast.SelectStmt:
			// their bodies are statements of their own; only the header expressions of s itself are looked at
			if x != ast.Node(s) {
				return false
			}
		case *ast.CallExpr:
			if try(y) {
				return false
			}
		}
		return true
	}
	ast.Inspect(s, visit)
	return eds
}

// reportUnmatched lists calls of unknown helpers that stay calls because of where they stand.
func (n *normalizer) reportUnmatched(s ast.Stmt) {
	ast.Inspect(s, func(x ast.Node) bool {
		switch y := x.(type) {
		case *ast.BlockStmt, *ast.CaseClause, *ast.CommClause:
			return x == ast.Node(s)
		case *ast.CallExpr:
			if call, callee, _ := n.target(y); call != nil {
				n.res.Skipped = append(n.res.Skipped, fmt.Sprintf("%s at %s: the call stands inside an expression that cannot be split without changing the order of evaluation", callee.Name(), n.fset.Position(call.Pos())))
			}
		}
		return true
	})
}

// rewriteStmt1 handles the direct statement forms; ok=false means "no direct form matched" (nested edits only).
func (n *normalizer) rewriteStmt1(s ast.Stmt, caller string) ([]edit, bool) {
	eds, matched := n.rewriteDirect(s, caller)
	return eds, matched
}

func (n *normalizer) rewriteDirect(s ast.Stmt, caller string) ([]edit, bool) {
	before := len(n.res.Inlined)
	eds := n.rewriteStmt0(s, caller)
	// a direct form matched iff it produced exactly one edit covering the whole statement
	if len(eds) == 1 && eds[0].start == n.off(s.Pos()) && eds[0].end == n.off(s.End()) && len(n.res.Inlined) > before {
		return eds, true
	}
	return eds, false
}

func (n *normalizer) rewriteStmt0(s ast.Stmt, caller string) []edit {
	switch st := s.(type) {
	case *ast.ExprStmt:
		if call, callee, neg := n.target(st.X); call != nil && !neg {
			if pre, _, ok := n.inline(call, callee, caller); ok {
				return []edit{{n.off(s.Pos()), n.off(s.End()), pre}}
			}
		}
	case *ast.AssignStmt:
		if len(st.Rhs) == 1 && (st.Tok == token.ASSIGN || st.Tok == token.DEFINE) {
			if call, callee, neg := n.target(st.Rhs[0]); call != nil && !neg {
				if pre, temps, ok := n.inline(call, callee, caller); ok && len(temps) == len(st.Lhs) {
					var lhs []string
					for _, l := range st.Lhs {
						lhs = append(lhs, n.text(l))
					}
					return []edit{{n.off(s.Pos()), n.off(s.End()), pre + "\n" + strings.Join(lhs, ", ") + " " + st.Tok.String() + " " + strings.Join(temps, ", ")}}
				}
			}
		}
	case *ast.DeclStmt:
		// var x [T] = h(..)   (also the form the argument bindings of an earlier inlining take)
		if gd, ok := st.Decl.(*ast.GenDecl); ok && gd.Tok == token.VAR && len(gd.Specs) == 1 {
			if vs, ok := gd.Specs[0].(*ast.ValueSpec); ok && len(vs.Names) == 1 && len(vs.Values) == 1 {
				if call, callee, neg := n.target(vs.Values[0]); call != nil && !neg {
					if pre, temps, ok := n.inline(call, callee, caller); ok && len(temps) == 1 {
						typ := ""
						if vs.Type != nil {
							typ = " " + n.text(vs.Type)
						}
						return []edit{{n.off(s.Pos()), n.off(s.End()), pre + "\nvar " + vs.Names[0].Name + typ + " = " + temps[0]}}
					}
				}
			}
		}
	case *ast.ReturnStmt:
		if len(st.Results) == 1 {
			if call, callee, neg := n.target(st.Results[0]); call != nil {
				if pre, temps, ok := n.inline(call, callee, caller); ok && len(temps) >= 1 {
					ret := strings.Join(temps, ", ")
					if neg {
						if len(temps) != 1 {
							break
						}
						ret = "!" + temps[0]
					}
					return []edit{{n.off(s.Pos()), n.off(s.End()), "{\n" + pre + "\nreturn " + ret + "\n}"}}
				}
			}
		}
	case *ast.RangeStmt:
		if call, callee, neg := n.target(st.X); call != nil && !neg {
			if pre, temps, ok := n.inline(call, callee, caller); ok && len(temps) == 1 {
				inner := n.nested(st.Body, caller)
				inner = append(inner, edit{n.off(st.X.Pos()), n.off(st.X.End()), temps[0]})
				body := applyEdits(n.text(st), n.off(st.Pos()), inner)
				return []edit{{n.off(s.Pos()), n.off(s.End()), "{\n" + pre + "\n" + body + "\n}"}}
			}
		}
	case *ast.IfStmt:
		var pre string
		var inner []edit
		done := false
		if st.Init == nil {
			if call, callee, _ := n.target(st.Cond); call != nil {
				if p, temps, ok := n.inline(call, callee, caller); ok && len(temps) == 1 {
					pre = p
					inner = append(inner, edit{n.off(call.Pos()), n.off(call.End()), temps[0]})
					done = true
				}
			}
		} else {
			switch in := st.Init.(type) {
			case *ast.AssignStmt:
				if len(in.Rhs) == 1 && (in.Tok == token.ASSIGN || in.Tok == token.DEFINE) {
					if call, callee, neg := n.target(in.Rhs[0]); call != nil && !neg {
						if p, temps, ok := n.inline(call, callee, caller); ok && len(temps) == len(in.Lhs) {
							var lhs []string
							for _, l := range in.Lhs {
								lhs = append(lhs, n.text(l))
							}
							pre = p + "\n" + strings.Join(lhs, ", ") + " " + in.Tok.String() + " " + strings.Join(temps, ", ")
							// drop "init;" from the if header
							inner = append(inner, edit{n.off(in.Pos()), n.off(st.Cond.Pos()), ""})
							done = true
						}
					}
				}
			case *ast.ExprStmt:
				if call, callee, neg := n.target(in.X); call != nil && !neg {
					if p, _, ok := n.inline(call, callee, caller); ok {
						pre = p
						inner = append(inner, edit{n.off(in.Pos()), n.off(st.Cond.Pos()), ""})
						done = true
					}
				}
			}
		}
		inner = append(inner, n.rewriteBlock(st.Body, caller)...)
		switch e := st.Else.(type) {
		case *ast.BlockStmt:
			inner = append(inner, n.rewriteBlock(e, caller)...)
		case *ast.IfStmt:
			inner = append(inner, n.rewriteStmt(e, caller)...)
		}
		if !done {
			return inner
		}
		body := applyEdits(n.text(st), n.off(st.Pos()), inner)
		return []edit{{n.off(s.Pos()), n.off(s.End()), "{\n" + pre + "\n" + body + "\n}"}}
	case *ast.LabeledStmt:
		// the labelled statement itself is not replaced (a label must stay on one statement); look inside
		return n.nested(st.Stmt, caller)
	}
	return n.nested(s, caller)
}

func (n *normalizer) skip(call *ast.CallExpr, callee *types.Func, why string) (string, []string, bool) {
	n.res.Skipped = append(n.res.Skipped, fmt.Sprintf("%s at %s: %s", callee.Name(), n.fset.Position(call.Pos()), why))
	return "", nil, false
}

// inline builds the replacement text for one call: the statements that evaluate the arguments and run the body, and
// the names of the temporaries holding the results.
func (n *normalizer) inline(call *ast.CallExpr, callee *types.Func, caller string) (string, []string, bool) {
	fd := n.newFn[callee]
	sig := callee.Type().(*types.Signature)
	info := n.pkg.TypesInfo
	if sig.RecvTypeParams() != nil {
		return n.skip(call, callee, "method of a generic type")
	}
	// a generic helper: use the signature instantiated at this call and substitute the type arguments in the body
	typeArgs := map[*types.TypeName]types.Type{}
	if sig.TypeParams() != nil {
		var id *ast.Ident
		switch f := ast.Unparen(call.Fun).(type) {
		case *ast.Ident:
			id = f
		case *ast.IndexExpr:
			id, _ = f.X.(*ast.Ident)
		case *ast.IndexListExpr:
			id, _ = f.X.(*ast.Ident)
		}
		inst, ok := info.Instances[id]
		if id == nil || !ok || inst.TypeArgs == nil || inst.TypeArgs.Len() != sig.TypeParams().Len() {
			return n.skip(call, callee, "generic helper whose instantiation is not recorded")
		}
		for i := 0; i < sig.TypeParams().Len(); i++ {
			typeArgs[sig.TypeParams().At(i).Obj()] = inst.TypeArgs.At(i)
		}
		isig, ok := inst.Type.(*types.Signature)
		if !ok {
			return n.skip(call, callee, "generic helper whose instantiation is not a signature")
		}
		sig = isig
	}
	if caller == callee.Name() {
		return n.skip(call, callee, "recursive")
	}
	calleeFile := n.fset.File(fd.Pos()).Name()
	if _, ok := n.src[calleeFile]; !ok {
		if b, inOv := n.overlay[calleeFile]; inOv {
			n.src[calleeFile] = string(b)
		} else if b, err := os.ReadFile(calleeFile); err == nil {
			n.src[calleeFile] = string(b)
		} else {
			return n.skip(call, callee, "source of the helper not available")
		}
	}
	// the helper's body must be free of constructs whose meaning depends on the function boundary
	bad := ""
	var returns []*ast.ReturnStmt
	var labels []*ast.Ident
	ast.Inspect(fd.Body, func(x ast.Node) bool {
		switch y := x.(type) {
		case *ast.FuncLit:
			return false
		case *ast.DeferStmt:
			if !n.inTail {
				bad = "defer"
			}
		case *ast.BranchStmt:
			if y.Tok == token.GOTO {
				bad = "goto"
			}
			if y.Label != nil {
				labels = append(labels, y.Label)
			}
		case *ast.LabeledStmt:
			labels = append(labels, y.Label)
		case *ast.ReturnStmt:
			returns = append(returns, y)
		case *ast.CallExpr:
			if id, ok := y.Fun.(*ast.Ident); ok && id.Name == "recover" {
				bad = "recover"
			}
		}
		return true
	})
	if bad != "" {
		return n.skip(call, callee, "helper uses "+bad)
	}
	// lexical capture: every free name of the body must mean the same thing at the call site
	scope := n.pkg.Types.Scope().Innermost(call.Pos())
	if scope == nil {
		return n.skip(call, callee, "no scope at the call site")
	}
	capture := ""
	skipIdent := map[*ast.Ident]bool{}
	ast.Inspect(fd.Body, func(x ast.Node) bool {
		switch y := x.(type) {
		case *ast.SelectorExpr:
			skipIdent[y.Sel] = true
		case *ast.KeyValueExpr:
			if id, ok := y.Key.(*ast.Ident); ok {
				if v, ok := info.Uses[id].(*types.Var); ok && v.IsField() {
					skipIdent[id] = true
				}
			}
		}
		return true
	})
	ast.Inspect(fd.Body, func(x ast.Node) bool {
		id, ok := x.(*ast.Ident)
		if !ok || skipIdent[id] || id.Name == "_" {
			return true
		}
		obj := info.Uses[id]
		if obj == nil {
			return true
		}
		if obj.Pos().IsValid() && obj.Pos() >= fd.Pos() && obj.Pos() < fd.End() {
			return true // local to the helper (parameters, results, locals)
		}
		_, at := scope.LookupParent(id.Name, call.Pos())
		switch o := obj.(type) {
		case *types.PkgName:
			pn, ok := at.(*types.PkgName)
			if !ok || pn.Imported().Path() != o.Imported().Path() {
				capture = "package name " + id.Name + " means something else at the call site"
			}
		default:
			if at != obj {
				capture = "name " + id.Name + " means something else at the call site"
			}
		}
		return true
	})
	if capture != "" {
		return n.skip(call, callee, capture)
	}
	qual := func(p *types.Package) string {
		if p == n.pkg.Types {
			return ""
		}
		if name, ok := n.imports[p.Path()]; ok {
			return name
		}
		bad = "type from package " + p.Path() + " not imported in the caller's file"
		return p.Name()
	}
	n.counter++
	k := n.counter
	pfx := fmt.Sprintf("inl%d_", k)
	var sb strings.Builder
	var inner strings.Builder
	// receiver
	argNo := 0
	// typeOK: every type name in the printed form of t means that type at the call site
	typeOK := func(t types.Type) bool {
		ok := true
		seen := map[types.Type]bool{}
		var walk func(t types.Type)
		walk = func(t types.Type) {
			if t == nil || seen[t] {
				return
			}
			seen[t] = true
			switch x := t.(type) {
			case *types.Named:
				obj := x.Obj()
				if obj.Pkg() == nil {
					_, at := scope.LookupParent(obj.Name(), call.Pos())
					if at != types.Object(obj) {
						ok = false
					}
				} else if obj.Pkg() == n.pkg.Types {
					_, at := scope.LookupParent(obj.Name(), call.Pos())
					if at != types.Object(obj) {
						ok = false
					}
				} else {
					local, imported := n.imports[obj.Pkg().Path()]
					if !imported {
						ok = false
					} else {
						_, at := scope.LookupParent(local, call.Pos())
						if pn, isPN := at.(*types.PkgName); !isPN || pn.Imported().Path() != obj.Pkg().Path() {
							ok = false
						}
					}
				}
				if ta := x.TypeArgs(); ta != nil {
					for i := 0; i < ta.Len(); i++ {
						walk(ta.At(i))
					}
				}
			case *types.Alias:
				walk(types.Unalias(x))
			case *types.Basic:
				if x.Kind() != types.UnsafePointer && x.Kind() != types.Invalid {
					_, at := scope.LookupParent(x.Name(), call.Pos())
					if at == nil || at.Pkg() != nil {
						ok = false
					}
				}
			case *types.Pointer:
				walk(x.Elem())
			case *types.Slice:
				walk(x.Elem())
			case *types.Array:
				walk(x.Elem())
			case *types.Chan:
				walk(x.Elem())
			case *types.Map:
				walk(x.Key())
				walk(x.Elem())
			case *types.Signature:
				for i := 0; i < x.Params().Len(); i++ {
					walk(x.Params().At(i).Type())
				}
				for i := 0; i < x.Results().Len(); i++ {
					walk(x.Results().At(i).Type())
				}
			case *types.Struct:
				for i := 0; i < x.NumFields(); i++ {
					walk(x.Field(i).Type())
				}
			case *types.Interface:
				for i := 0; i < x.NumExplicitMethods(); i++ {
					walk(x.ExplicitMethod(i).Type())
				}
				for i := 0; i < x.NumEmbeddeds(); i++ {
					walk(x.EmbeddedType(i))
				}
			case *types.TypeParam:
				ok = false
			}
		}
		walk(t)
		return ok
	}
	ptmp := map[string]string{}
	bind := func(name string, t types.Type, expr string, argType types.Type) {
		tmp := fmt.Sprintf("%sa%d", pfx, argNo)
		argNo++
		if name != "" && name != "_" {
			ptmp[name] = tmp
		}
		if argType != nil && types.Identical(argType, t) {
			fmt.Fprintf(&sb, "var %s = %s\n", tmp, expr)
		} else {
			if !typeOK(t) {
				bad = "a parameter type cannot be named at the call site"
			}
			fmt.Fprintf(&sb, "var %s %s = %s\n", tmp, types.TypeString(t, qual), expr)
		}
		if name == "" || name == "_" {
			fmt.Fprintf(&inner, "_ = %s\n", tmp)
		} else {
			fmt.Fprintf(&inner, "var %s = %s\n_ = %s\n", name, tmp, name)
		}
	}
	if sig.Recv() != nil {
		sel, ok := ast.Unparen(call.Fun).(*ast.SelectorExpr)
		if !ok {
			return n.skip(call, callee, "method not called through a selector")
		}
		if s := info.Selections[sel]; s == nil || len(s.Index()) != 1 || s.Kind() != types.MethodVal {
			return n.skip(call, callee, "promoted method or method expression")
		}
		rt := sig.Recv().Type()
		xt := info.TypeOf(sel.X)
		expr := n.text(sel.X)
		_, rp := rt.(*types.Pointer)
		_, xp := xt.Underlying().(*types.Pointer)
		if _, isPtrNamed := xt.(*types.Pointer); isPtrNamed {
			xp = true
		}
		switch {
		case rp && !xp:
			expr = "&(" + expr + ")"
		case !rp && xp:
			expr = "*(" + expr + ")"
		}
		name := ""
		if fd.Recv != nil && len(fd.Recv.List) == 1 && len(fd.Recv.List[0].Names) == 1 {
			name = fd.Recv.List[0].Names[0].Name
		}
		var at types.Type
		if rp == xp {
			at = xt
		}
		bind(name, rt, expr, at)
	}
	nFixed := sig.Params().Len()
	if sig.Variadic() {
		nFixed--
	}
	if (!sig.Variadic() && len(call.Args) != nFixed) || (sig.Variadic() && len(call.Args) < nFixed) {
		return n.skip(call, callee, "argument count differs from parameter count (multi-value call)")
	}
	if call.Ellipsis.IsValid() && len(call.Args) != nFixed+1 {
		return n.skip(call, callee, "unsupported spread call")
	}
	var pnames []string
	for _, f := range fd.Type.Params.List {
		if len(f.Names) == 0 {
			pnames = append(pnames, "_")
		}
		for _, nm := range f.Names {
			pnames = append(pnames, nm.Name)
		}
	}
	for i, a := range call.Args {
		if i >= nFixed {
			break
		}
		var at types.Type
		if tv, ok := info.Types[a]; ok && tv.Value == nil && !tv.IsNil() {
			at = tv.Type
		}
		bind(pnames[i], sig.Params().At(i).Type(), n.text(a), at)
	}
	if sig.Variadic() {
		vt := sig.Params().At(nFixed).Type() // []T
		switch {
		case call.Ellipsis.IsValid():
			a := call.Args[nFixed]
			bind(pnames[nFixed], vt, n.text(a), info.TypeOf(a))
		case len(call.Args) == nFixed:
			bind(pnames[nFixed], vt, "nil", nil)
		default:
			if !typeOK(vt) {
				bad = "the variadic parameter type cannot be named at the call site"
			}
			var es []string
			for _, a := range call.Args[nFixed:] {
				es = append(es, n.text(a))
			}
			bind(pnames[nFixed], vt, types.TypeString(vt, qual)+"{"+strings.Join(es, ", ")+"}", nil)
		}
	}
	preArgs := sb.String()
	// results
	var temps []string
	var rnames []string
	if fd.Type.Results != nil {
		for _, f := range fd.Type.Results.List {
			if len(f.Names) == 0 {
				rnames = append(rnames, "")
			}
			for _, nm := range f.Names {
				rnames = append(rnames, nm.Name)
			}
		}
	}
	for i := 0; i < sig.Results().Len(); i++ {
		tmp := fmt.Sprintf("%sr%d", pfx, i)
		temps = append(temps, tmp)
		if !typeOK(sig.Results().At(i).Type()) {
			bad = "a result type cannot be named at the call site"
		}
		ts := types.TypeString(sig.Results().At(i).Type(), qual)
		fmt.Fprintf(&sb, "var %s %s\n_ = %s\n", tmp, ts, tmp)
		if i < len(rnames) && rnames[i] != "" && rnames[i] != "_" {
			fmt.Fprintf(&inner, "var %s = %s\n_ = %s\n", rnames[i], tmp, rnames[i])
		}
	}
	if bad != "" {
		n.counter--
		return n.skip(call, callee, bad)
	}
	// type-parameter substitution edits (generic helpers); applied inside return expressions and in the rest of the body
	var subst []edit
	if len(typeArgs) > 0 {
		okSubst := true
		ast.Inspect(fd.Body, func(x ast.Node) bool {
			id, ok := x.(*ast.Ident)
			if !ok {
				return true
			}
			if tn, ok := info.Uses[id].(*types.TypeName); ok {
				if ta, isTP := typeArgs[tn]; isTP {
					if !typeOK(ta) {
						okSubst = false
					}
					subst = append(subst, edit{n.off(id.Pos()), n.off(id.End()), types.TypeString(ta, qual)})
				}
			}
			return true
		})
		if !okSubst || bad != "" {
			n.counter--
			return n.skip(call, callee, "a type argument cannot be named at the call site")
		}
	}
	textWith := func(a ast.Node) string {
		var in []edit
		for _, e := range subst {
			if e.start >= n.off(a.Pos()) && e.end <= n.off(a.End()) {
				in = append(in, e)
			}
		}
		return applyEdits(n.text(a), n.off(a.Pos()), in)
	}
	// a predicate that is one expression ("return a == x || a == y") goes back where it came from: into the
	// expression at the call site, parameters replaced by the argument temporaries. The condition then has the shape
	// (and the short-circuit control flow) it had before the predicate was extracted.
	if len(fd.Body.List) == 1 && len(returns) == 1 && len(temps) == 1 && len(subst) == 0 && ast.Stmt(returns[0]) == fd.Body.List[0] && len(returns[0].Results) == 1 {
		rexpr := returns[0].Results[0]
		if b, isB := sig.Results().At(0).Type().Underlying().(*types.Basic); isB && b.Kind() == types.Bool && types.Identical(info.TypeOf(rexpr), sig.Results().At(0).Type()) {
			hasLit := false
			var eds []edit
			ast.Inspect(rexpr, func(x ast.Node) bool {
				switch y := x.(type) {
				case *ast.FuncLit:
					hasLit = true
					return false
				case *ast.Ident:
					if obj := info.Uses[y]; obj != nil && obj.Pos().IsValid() && obj.Pos() >= fd.Pos() && obj.Pos() < fd.End() {
						if t, ok := ptmp[y.Name]; ok {
							eds = append(eds, edit{n.off(y.Pos()), n.off(y.End()), t})
						} else {
							hasLit = true // a result name or something else local: not a plain expression
						}
					}
				}
				return true
			})
			if !hasLit {
				lo := n.off(rexpr.Pos())
				etext := applyEdits(n.src[calleeFile][lo:n.off(rexpr.End())], lo, eds)
				n.res.Inlined = append(n.res.Inlined, fmt.Sprintf("%s <- %s @%s", caller, callee.Name(), n.fset.Position(call.Pos())))
				return preArgs, []string{"(" + etext + ")"}, true
			}
		}
	}
	// body with returns rewritten
	label := fmt.Sprintf("inl%d", k)
	var eds []edit
	for _, r := range returns {
		var as string
		switch {
		case len(temps) == 0:
			as = ""
		case len(r.Results) == 0: // bare return with named results
			var ns []string
			for _, rn := range rnames {
				if rn == "" || rn == "_" {
					n.counter--
					return n.skip(call, callee, "bare return with unnamed or blank results")
				}
				ns = append(ns, rn)
			}
			as = strings.Join(temps, ", ") + " = " + strings.Join(ns, ", ") + "\n"
		case len(r.Results) == len(temps):
			var es []string
			for _, e := range r.Results {
				es = append(es, textWith(e))
			}
			as = strings.Join(temps, ", ") + " = " + strings.Join(es, ", ") + "\n"
		case len(r.Results) == 1: // return f() with a multi-value f
			as = strings.Join(temps, ", ") + " = " + textWith(r.Results[0]) + "\n"
		default:
			n.counter--
			return n.skip(call, callee, "unsupported return form")
		}
		eds = append(eds, edit{n.off(r.Pos()), n.off(r.End()), "{\n" + as + "break " + label + "\n}"})
	}
	for _, l := range labels {
		eds = append(eds, edit{n.off(l.Pos()), n.off(l.End()), pfx + l.Name})
	}
	for _, se := range subst {
		inRet := false
		for _, r := range returns {
			if se.start >= n.off(r.Pos()) && se.end <= n.off(r.End()) {
				inRet = true
			}
		}
		if !inRet {
			eds = append(eds, se)
		}
	}
	lb, rb := n.off(fd.Body.Lbrace)+1, n.off(fd.Body.Rbrace)
	body := applyEdits(n.src[calleeFile][lb:rb], lb, eds)
	fmt.Fprintf(&sb, "{\n%s%s: for {\n%s\nbreak %s\n}\n}", inner.String(), label, body, label)
	n.res.Inlined = append(n.res.Inlined, fmt.Sprintf("%s <- %s @%s", caller, callee.Name(), n.fset.Position(call.Pos())))
	return sb.String(), temps, true
}
