#!/bin/bash
# positive controls under mutation: each seeded change with a mechanical mutator applied on top must still fire
cd /verif
K=${KIND:-wrap}
for D in ${SEEDS:-seeded/C*-*}; do
  S=$(basename $D); P=${S%%-*}
  out=$(VERIF_HOME=/verif VERIF_REPO=/repo PATH=/opt/veriftools/go1.26.8/bin:$PATH GOTOOLCHAIN=local GOFLAGS=-mod=mod GOPROXY=off GOSUMDB=off bin/kverif $P --mutate $K --control $D/patch.diff 2>&1 | grep MUTATE | cut -c1-160)
  echo "$S $K: $out"
done
