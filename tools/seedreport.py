#!/usr/bin/env python3
"""Writes meta.json for every seeded change and prints the summary table (markdown)."""
import json, os, re, glob, subprocess
rows=[]
head=subprocess.check_output(['git','-C','/repo','log','-1','--format=%h']).decode().strip()
import sys
ONLY=set(sys.argv[1:])
for d in sorted(glob.glob('/verif/seeded/C*-*')):
    if ONLY and os.path.basename(d) not in ONLY: continue
    sid=os.path.basename(d); prop=sid.split('-')[0]
    readme=open(os.path.join(d,'README.md')).read() if os.path.exists(os.path.join(d,'README.md')) else ''
    # what it needs to manifest: paragraph(s) mentioning 'manifest' or 'need'
    needs=''
    for para in re.split(r'\n\s*\n', readme):
        if re.search(r'manifest|needs|Needs|trigger|interleav', para) and len(para)>40:
            needs=re.sub(r'\s+',' ',para.strip())[:600]; break
    confirm=''
    cpath=os.path.join(d,'confirm.txt')
    if os.path.exists(cpath):
        confirm=open(cpath).read()
    res=re.findall(r'RESULT \S+ (.*)', confirm)
    confirmed = res[-1] if res else 'not run'
    out=''
    opath=f'/tmp/seed_{sid}.out'
    if os.path.exists(opath): out=open(opath).read()
    caught=[re.sub(r'\s+',' ',l.strip()) for l in out.splitlines() if l.strip().startswith(('violated','undecided'))]
    files=re.findall(r'^\+\+\+ b/(\S+)', open(os.path.join(d,'patch.diff')).read(), re.M)
    meta={
      "seed": sid, "property": prop, "files": files,
      "breaks": f"property {prop} (see README.md for the clause)",
      "needs_to_manifest": needs,
      "demonstration": [os.path.basename(p) for p in glob.glob(os.path.join(d,'zz_seed_*_test.go'))],
      "demo_path": open(os.path.join(d,'demo_path.txt')).read().strip() if os.path.exists(os.path.join(d,'demo_path.txt')) else '',
      "confirmed_by_me": confirmed,
      "confirmed_against_repo_head": head,
      "what_i_ran": "tools/confirmseeds.sh: scratch worktree of /repo HEAD; git apply patch.diff; go test <pkg> (existing tests, demo absent) must pass; go test -run <demo> must fail; without the patch the demo must pass. Then tools/runseed.sh <seed>: git -C /repo apply, ./check <property>, git checkout -- .",
      "caught_by": caught,
      "origin": "independent sub-agent given only the property text and a scratch worktree",
    }
    json.dump(meta, open(os.path.join(d,'meta.json'),'w'), indent=1)
    rows.append((sid, confirmed, '; '.join(c.replace('violated ','') for c in caught) or 'MISSED'))
print('| seed | confirmed | caught by (obligation keys) |\n|---|---|---|')
for r in rows: print(f'| {r[0]} | {r[1]} | {r[2][:220]} |')
