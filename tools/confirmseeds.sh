#!/bin/bash
# Confirms every seeded change in a scratch worktree of /repo HEAD:
#  1. patch applies (3-way allowed), touched packages build
#  2. existing tests of the demo's package pass WITH the patch (demo absent)
#  3. demo FAILS with the patch
#  4. demo PASSES without the patch
# Results: /verif/seeded/<id>/confirm.txt
WT=${WT:-/tmp/wt/confirm}
cd /repo && git worktree remove --force $WT 2>/dev/null; git worktree add -q --detach $WT HEAD || exit 2
mkdir -p /tmp/wt/perfstub; cp /verif/tools/perfstub/perf_group_stub.go /tmp/wt/perfstub/ 2>/dev/null
cat > $WT/.perf_overlay.json <<J
{"Replace": {"$WT/pkg/koordlet/util/perf_group/perf_group_linux.go": "/tmp/wt/perfstub/perf_group_stub.go"}}
J
OV="-overlay $WT/.perf_overlay.json"
for D in ${SEEDS:-/verif/seeded/C*-*}; do
  S=$(basename $D)
  [ -f $D/patch.diff ] || continue
  OUT=$D/confirm.txt
  cd $WT && git reset -q --hard && git clean -fdq -- pkg apis cmd
  DEMO=$(cat $D/demo_path.txt 2>/dev/null | tr -d '\n ')
  TESTF=$(ls $D/zz_seed_*_test.go 2>/dev/null | head -1)
  PKG=./$(dirname $DEMO)
  NAME=$(grep -ho "^func Test[A-Za-z0-9_]*" $TESTF | sed 's/func //' | paste -sd'|')
  {
  echo "seed $S  head $(git -C /repo log -1 --format=%h)  pkg $PKG  tests $NAME"
  if git apply --check $D/patch.diff 2>/dev/null; then git apply $D/patch.diff; echo "apply: clean";
  elif git apply --3way $D/patch.diff >/dev/null 2>&1 && ! grep -rl '^<<<<<<<' $(git diff --name-only) >/dev/null 2>&1; then git reset -q; echo "apply: 3-way";
  else echo "apply: FAILED (conflicts with a later fix)"; git reset -q --hard; echo "RESULT $S not-applicable-on-head"; continue; fi
  if go test -mod=mod -vet=off -count=1 $OV $PKG > /tmp/wt/confirm_existing.log 2>&1; then echo "existing tests with patch: PASS"; E=ok; else echo "existing tests with patch: FAIL"; tail -5 /tmp/wt/confirm_existing.log; E=bad; fi
  cp $TESTF $WT/$DEMO
  if go test -mod=mod -vet=off -count=1 $OV -run "^($NAME)\$" $PKG > /tmp/wt/confirm_demo1.log 2>&1; then echo "demo with patch: PASS (unexpected)"; P=bad; else echo "demo with patch: FAIL (expected)"; grep -m3 -E "^\s+--- FAIL|FAIL:|panic" /tmp/wt/confirm_demo1.log; P=ok; fi
  git reset -q --hard
  if go test -mod=mod -vet=off -count=1 $OV -run "^($NAME)\$" $PKG > /tmp/wt/confirm_demo2.log 2>&1; then echo "demo without patch: PASS (expected)"; C=ok; else echo "demo without patch: FAIL (unexpected)"; tail -8 /tmp/wt/confirm_demo2.log; C=bad; fi
  rm -f $WT/$DEMO
  if [ $E = ok ] && [ $P = ok ] && [ $C = ok ]; then echo "RESULT $S confirmed"; else echo "RESULT $S NOT-confirmed existing=$E demo_with=$P demo_without=$C"; fi
  } > $OUT 2>&1
  tail -1 $OUT
done
cd /repo && git worktree remove --force $WT
