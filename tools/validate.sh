#!/bin/bash
# validates MANIFEST.json and every evidence file against the schemas
cd "$(dirname "$0")/.."
python3-vt - <<'PY'
import json,jsonschema,glob,sys
ok=True
try:
    jsonschema.validate(json.load(open('MANIFEST.json')), json.load(open('/root/.vp/MANIFEST.schema.json')))
except Exception as e:
    ok=False; print("MANIFEST invalid:", e)
sch=json.load(open('/root/.vp/EVIDENCE.schema.json'))
for f in sorted(glob.glob('evidence/*.json')):
    try:
        jsonschema.validate(json.load(open(f)), sch)
    except Exception as e:
        ok=False; print(f, "invalid:", str(e)[:300])
print("valid" if ok else "INVALID")
sys.exit(0 if ok else 1)
PY
