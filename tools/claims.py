# executed by mkmanifest.py
NOT_CLAIMED = {}

claim("C06",
  "custom AST/SSA rules: comparator-index rule over all sort sites, mirror write-set of ledger add/release, must-lockset on NodeAllocation, dominating-guard rule for the required CPU bind policy",
  "Decides, for every input at once, structural necessary conditions of C06 on the current source: comparator positions never used as NUMA ids (the 'whichever node ids the hint names' clause), allocate/release write the same ledgers, ledger fields accessed only under the node lock, required bind policy verified before success. It does not decide the set arithmetic (exact count, disjointness, never more than free).",
  "trusts go/types+go/ssa of x/tools v0.50.0 and the rule tables in internal/rules/c06.go; amounts and CPU-id sets are runtime quantities and are not decided",
  "DESIGN.md §4 C06")
