# executed by mkmanifest.py
NOT_CLAIMED = {}

claim("C06",
  "custom AST/SSA rules: comparator-index rule over all sort sites, mirror write-set of ledger add/release, must-lockset on NodeAllocation, dominating-guard rule for the required CPU bind policy",
  "Decides, for every input at once, structural necessary conditions of C06 on the current source: comparator positions never used as NUMA ids (the 'whichever node ids the hint names' clause), allocate/release write the same ledgers, ledger fields accessed only under the node lock, required bind policy verified before success. It does not decide the set arithmetic (exact count, disjointness, never more than free).",
  "trusts go/types+go/ssa of x/tools v0.50.0 and the rule tables in internal/rules/c06.go; amounts and CPU-id sets are runtime quantities and are not decided",
  "DESIGN.md §4 C06")

claim("C10",
  "custom SSA rules: divisor-nonzero proof (dominating guards) over the package, dominating-guard rule on candidate-pool appends, provenance slice of the applied CPU list, Sub-only polarity of the budget, must-pass-through max() for the quota",
  "Decides structural necessary conditions of C10 for every input: no integer division in the suppress computation can see a zero divisor (never crashes when no CPU is eligible); reserved, system-exclusive and LSE-owned CPUs cannot enter the BE candidate pools or survive calcBECPUSet's filter; the applied CPU list comes only from the selection over those pools; consumption terms only lower the budget; the quota is floored. It does not decide the numeric budget, the exact CPU count, distinctness or the step limit.",
  "trusts go/ssa and the rule tables in internal/rules/c10.go; numeric quantities are not decided; assumes configured percentages are non-negative",
  "DESIGN.md §4 C10")

claim("C09",
  "custom SSA rules: accumulator-family co-charge path rule, sibling arm-vector comparison, polarity abstract interpretation with an operator table, clamp provenance, degrade gate exploration",
  "Decides structural necessary conditions of C09 for every input and configuration: whenever a pod is charged to 'used' it is charged to 'max(used,request)' too (node and NUMA level), both levels charge under the same arms, the policy formula is non-increasing in every consumption input on every policy branch and every entry is zero-clamped (and threshold-capped from capacity), stale metrics lead to Reset and never to the computation. It does not decide the numeric bound or the mid-tier arithmetic.",
  "trusts the polarity operator table (semantics of quota/v1 Add/Subtract/Max and util.MinQuant/Multiply*Quant read from source) and assumes non-negative configured percentages",
  "DESIGN.md §4 C09")

claim("C15",
  "custom SSA rules: transaction rule (no topology write before a reachable error return) via conditional-constant exploration, write-set who-may-write rule, error-propagation rule on every validator call, ancestor-walk recogniser gating the parent-link store, must-lockset",
  "Decides structural necessary conditions of C15 for every request history: a rejected request cannot have modified the recorded topology, only the three validated entry points (and the informer replay handlers) write it, no validator error is dropped, the parent link is recorded only after a validator that walks the ancestor chain and rejects self-ancestry (no cycles), and all accesses are under the topology lock. It does not decide the min-sum arithmetic or the key-set comparisons.",
  "trusts go/ssa and the rule tables in internal/rules/c15.go; informer handlers are exempt from the write-set rule because they replay objects the API server already admitted",
  "DESIGN.md §4 C15")

claim("C16",
  "custom SSA rules: must-lockset over counter fields with requirement propagation, check-then-act atomicity rule (transitive read/write sites under one mutex), dominating-guard rules for dry-run and mark-after-persist, value-flow table of the limit filters into the retryable chain, sibling comparison of phase contexts",
  "Decides structural necessary conditions of C16 for every schedule: eviction counters are only touched under their lock; in PodEvictor.Evict and evictorProxy.Evict the cap check and the increment are inside one critical section; the API call needs dry-run off and no refusal follows a count; the four migration limits sit only in the retryable chain under their own gates; only the non-retryable chain fails a job; the duplicate-job filter runs first; all four limit filters count the same phases; a job is marked passed only after a successful update; arbitration state is accessed under its mutex. It does not decide the per-round counts.",
  "trusts go/ssa, the interface-dispatch resolution by types.Implements over repo types, and the rule tables in internal/rules/c16.go",
  "DESIGN.md §4 C16")

claim("C04",
  "custom SSA rules: set-partition transition rule over the three member maps (paired delete or dominating absence test), event-started conditional-constant exploration of Permit (flag-after-loop aware), enum exhaustiveness of the status switch, strict-mode must-pass-through reject, must-lockset on the gang maps",
  "Decides structural necessary conditions of C04 for every event order: a member can never be inserted into one of pending/waiting/bound without leaving the others; Permit cannot return Success once a gang of the group was missing or invalid, and validates every gang of the group; every core status has a case and only Success releases the group; strict mode always rejects the group on a failed or rolled-back member; the member maps are only touched under the gang lock. It does not decide the counting (>= minMember) nor interleavings across several calls.",
  "trusts go/ssa and the rule tables in internal/rules/c04.go; two partition exemptions rely on the scheduler framework contract (no Permit/Unreserve after PostBind)",
  "DESIGN.md §4 C04")

claim("C11",
  "custom SSA/AST rules: dominating-guard rules on the Evict call, event-started exploration for mark/credit/test-before-next-eviction, control-dependence slice for the contribution gate, guard-vector sibling comparison of the victim builders, comparator key-chain extraction, narrowing-conversion rule on the parsed eviction priority",
  "Decides structural necessary conditions of C11 for every pod set and fault pattern: Evict only for pods not yet handled, not already evicted, while the target is unmet; after every success or already-evicted pod the pod is marked, its release credited for all targets and the target re-tested before any further eviction; a met target stops the loop; the eviction depends on the victim's own contribution (one known finding); candidates pass all eligibility filters, identically for memory and CPU; the comparator implements the published key order; the eviction-priority annotation cannot wrap. It does not decide amounts (minimality).",
  "trusts go/ssa and the rule tables in internal/rules/c11.go; one recorded known finding (contribution gate) is reported as KNOWN-FINDING",
  "DESIGN.md §4 C11")

claim("C12",
  "custom SSA rules: loop-direction classification of induction variables, registry table extraction from the package initialiser, dominating-guard rules for needUpdate/needMerge, cache-coherence flow rule on every success return of the merge function, operand-symmetry (mirror) rule on the merge conditions, must-follow rule for the two-phase BE cpuset rewrite",
  "Decides structural necessary conditions of C12 for every tree and value assignment: merge pass top-down before exact pass bottom-up; the five hierarchical files use mergeable updaters with the matching condition; nothing is written unless needUpdate/needMerge says so and the merged value is what is written; the cached updater always carries the content the file now holds (so the target is reached); old and new values are treated alike by the merge conditions; the BE cpuset union is written top-down before the target bottom-up. It does not decide the validity of each intermediate content for concrete values.",
  "trusts go/ssa loop shapes (rotated range loops are recognised) and the rule tables in internal/rules/c12.go",
  "DESIGN.md §4 C12")

claim("C01",
  "custom SSA rules: argument-matched pairing/ordering path rules over the six pod-event entry points (conditional-constant exploration), bracket rule on every new-minus-old delta, provenance rule for deltas applied to a parent, must-execute rule for the rebuild replay, must-lockset on the manager's maps",
  "Decides structural necessary conditions of C01 for every event history and schedule: cache/request/used/assigned updates are paired and correctly ordered in every entry point (nothing left behind, nothing removed after the pod left the cache); upward deltas are new-minus-old around the mutation; what a parent loses on delete/re-parent is the max-limited request it had received; a tree rebuild replays every saved quota; the manager's maps are written only under the hierarchy write lock. It does not decide that the deltas add up to recomputed totals, nor read-side races on QuotaInfo.",
  "trusts go/ssa and the rule tables in internal/rules/c01.go; per-QuotaInfo locking through scopedLockForQuotaInfo is not modelled (element-wise lock lists are outside access-path locksets)",
  "DESIGN.md §4 C01")

claim("C03",
  "custom SSA rules: conditional-constant exploration of PreFilter and the ancestor walk (no success exit before / after a failed comparison), operand provenance of the comparisons, sibling rule on the limit selector, must-reach rule for Reserve/Unreserve, write-lock atomicity rule for ReservePod/UnreservePod, both-deltas rule",
  "Decides structural necessary conditions of C03 for every history and switch combination: a pod cannot be admitted unless used+masked request <= the snapshot's limit (and nonPreemptibleUsed+request <= min for non-preemptible pods), the limit is runtime exactly when runtime quota is on, parent checking walks every ancestor with the same selector and stops only at the root, reserve/unreserve always reach the accounting and do check+update under the write lock, and a pod's used / non-preemptible-used change is applied unless both deltas are zero. It does not decide the closed-loop invariant used <= max nor completeness of rejections.",
  "trusts go/ssa and the rule tables in internal/rules/c03.go; relies on C01 for the accounting itself",
  "DESIGN.md §4 C03")

claim("C05",
  "custom SSA rules: mirror rule on the reservation ledger functions (effect summaries), write-set rule on Allocated, coupled-delete must-follow rule and guarded-admission rule on the node indexes with sibling comparison of the refresh blocks, conditional-constant exploration of the restricted fit and match predicates, must-reach rule for the pod update handler, must-lockset on the cache maps",
  "Decides structural necessary conditions of C05 for every history and fit input: add/remove of an assigned pod are exact duals on the same masked amount and recompute the derived figures; nobody else assigns Allocated; deleting a reservation removes it from all node indexes; the matchable/allocated indexes only admit matchable (and allocated) reservations, identically in the three refresh paths; a restricted reservation fits only through fitsReservation, which compares every reserved requested dimension and clamps after the preemptible credit; allocate-once and owner gates cannot be bypassed; every update of an assigned pod is replayed into the ledger; the cache maps are accessed under the cache lock. It does not decide the quantity comparison or sums over histories.",
  "trusts go/ssa and the rule tables in internal/rules/c05.go",
  "DESIGN.md §4 C05")

claim("C07",
  "custom SSA rules: dirty/clean typestate of the derived free ledger with caller-side summaries (fixpoint), arm-wise mirror rule on the add/remove flag, fresh-copy (no aliasing) rule on ledger stores, dominating-guard rule on candidate admission, conjunct provenance rule in the GPU topology allocator, write-side must-lockset",
  "Decides structural necessary conditions of C07 for every history and request shape: free is recomputed after every write of total/used before the critical section ends; add and remove arms of used / allocation set / VF allocations are duals on the same amount and guarded against duplicate events; ledger stores never alias per-pod records; a device is handed out only if non-zero and request <= free (both allocators), and failure is reported exactly when too few were found; ledger writes happen under the node-device write lock or on a fresh copy. It does not decide the sums or the combinatorial 'fails only if no feasible set exists'.",
  "trusts go/ssa and the rule tables in internal/rules/c07.go; read-side locking of allocators that reach the node device through a struct field is not claimed",
  "DESIGN.md §4 C07")

claim("C08",
  "custom SSA rules: full mirror comparison of addPod/deletePod (canonical guarded effects and branch conditions under a duality table), reset table for the rebuild, exemption-exit rule for Filter, exceed=>reject exploration of the threshold check, purity (effect) rule on the per-node profile generator",
  "Decides structural necessary conditions of C08 for every event history: the incremental sums are updated by an operation and its exact inverse under identical conditions; every accumulator is re-initialised before a metric report rebuilds the sums; Filter succeeds only through the threshold check or an enumerated exemption and rejects expired metrics as configured; an exceeded threshold always rejects; per-node thresholds never leak into the shared profile. It does not decide the inequality, its rounding, or equality with a fresh cache; locking is not claimed (conditional locking).",
  "trusts go/ssa and the canonical path rendering; a behaviour-preserving rewrite of only one of addPod/deletePod is reported as a mirror difference (by design: both sides must stay literal mirrors)",
  "DESIGN.md §4 C08")

claim("C13",
  "custom SSA/AST rules: enum-vs-table extraction of the forbidden pairs, constant ordering of the priority ranges, validator result-flow (error discipline) rule, single-return-shape rule for the immutability validators, replace+erase pairing and value provenance, call-pattern table of the translation, key-absence guard rule, conditional-constant exploration of the shape validators",
  "Decides structural necessary conditions of C13 for every pod: the forbidden QoS/priority pairs cover the priority enum; ranges are ordered and disjoint; on update both immutability validators compare the raw classes on every path and every validator result decides the admission; translation replaces and erases on the same path with the value coming only from the native amount (CPU in milli), over requests/limits of both container lists and overhead; a request is filled from a limit only when undeclared; batch needs BE and LSR/LSE need whole CPUs. It does not decide amount preservation for arbitrary quantities, idempotence, or the summary annotation.",
  "trusts go/ssa/go/types and the rule tables in internal/rules/c13.go; the priority bounds are package variables, their declared initial values are checked",
  "DESIGN.md §4 C13")

claim("C14",
  "custom SSA rules: sibling comparison of pod-level and container-level setters (extractor, conversion, structurally rendered post-conversion expression, response field, disabled value), dominating-guard rule on every response write, must-reach rule for the normalization ratio",
  "Decides structural necessary conditions of C14 for every container list and configuration: pod and container level use the same extractor on the same list, the same conversion and the same adjustment after it (so one level cannot be clamped or scaled differently from the other), write the same response field and the same disabled value; nothing is written for non-BE pods or without an extended spec; a successfully read CPU normalization ratio always reaches the rule. It does not decide the conversion arithmetic, rounding or the numeric 'pod no tighter than a container'.",
  "trusts go/ssa and the canonical rendering of SSA expressions; the pod-level aggregation loop is deliberately outside the comparison",
  "DESIGN.md §4 C14")

claim("C17",
  "custom SSA rules: conditional-constant exploration of doMigrate under each failed gate (eviction unreachable), dominance of every gate over the eviction, terminal-phase short-circuit (no effectful call reachable), gate and must-follow rules in evictPod, ordering rule in the TTL abort",
  "Decides structural necessary conditions of C17 for every reconcile input: the reservation-first eviction is unreachable while the reservation is missing, pending, expired, unscheduled without completed preemption, or placed on the pod's own node, and every such check is evaluated on every path to the eviction; a finished job reaches no effectful call; the evictor is not called when the condition is True/Evicting or the reservation is bound by another pod, and a successful eviction always persists the Evicting condition; the TTL abort deletes the reservation before marking the job failed and retries on delete errors. It does not decide multi-reconcile histories with faults or 'at most once' across reconciles.",
  "trusts go/ssa and the rule tables in internal/rules/c17.go; abortJobIfReserveOnSameNode failing open on a read error is noted in DESIGN.md as not claimed",
  "DESIGN.md §4 C17")

claim("C18",
  "custom SSA rules: dominating-guard and re-evaluation rules in the eviction loop, must-decrement exploration after a successful eviction, early-exit exploration of the pool processing under each 'nothing to do' condition, provenance of the source/destination arguments, exploration of the continue-condition closure",
  "Decides structural necessary conditions of C18 for every node pool: a pod is evicted only when the continue-condition evaluated in the same iteration holds and the pod passes the filters, the condition is re-evaluated and the running estimates decremented between evictions; the balance call is unreachable when no node is overloaded / confirmed anomalous / underused, too few or all are underused; sources are exactly the anomaly-filtered overloaded classes and destinations the underused classes; the continue-condition is true only for a still overutilized node with positive headroom. It does not decide threshold arithmetic, classification or anomaly counters over rounds.",
  "trusts go/ssa and the rule tables in internal/rules/c18.go",
  "DESIGN.md §4 C18")

claim("C19",
  "custom SSA/types rules: codec pairing (annotation key -> Marshal argument type / Unmarshal target type) and structural round-trip induction over go/types, call-graph reachability writer->reader per plugin, field-set sibling comparison of allocate / persist / restore literals, both-empty early-return rule, registration-order dominance, must-reach rule for reservation assignments",
  "Decides structural necessary conditions of C19 for every crash point: each persisted allocation annotation is written and read with one key and one type that survives JSON encoding; what pre-bind persists is read on the same plugin's informer path; the rebuilt allocation record sets every field the allocating path sets and reads every persisted field; a persisted allocation is dropped only when completely empty; owners (reservations, quotas) are replayed before pods and a pod's reservation assignment is always replayed into the ledger. It does not decide equality of the live and rebuilt caches over histories.",
  "trusts go/types, encoding/json semantics for the accepted type shapes, and the allow-list of custom marshalers (Quantity, Time, ...); node-level annotations are outside the property",
  "DESIGN.md §4 C19")

claim("C20",
  "custom SSA rules: sibling rule over the five section merge functions (keep-old-on-error and default-when-absent explorations, MergeCfg base/overlay provenance, must-store per node entry), unconditional-store rule in syncConfig, write-set rule on the config cache, first-match exploration of the selectors, struct-field table of the NodeSLO spec",
  "Decides structural necessary conditions of C20 for every ConfigMap sequence: each section merge returns the previously effective section on a parse error and the defaults when absent, merges base-then-overlay in the layered order, and gives every node entry a merged strategy (own overlay or cluster copy); syncConfig stores every result unconditionally and only updateCacheIfChanged writes the cache; the selectors return the first matching node entry and the cluster value only when none matches; every section of the NodeSLO spec is produced. It does not decide the field-by-field JSON overlay semantics.",
  "trusts go/ssa and the rule tables in internal/rules/c20.go; util.MergeCfg itself is trusted",
  "DESIGN.md §4 C20")

claim("C02",
  "custom SSA/AST rules: type rule (no floating point) and effect rule (allow-listed callees, no globals) over the division call tree, comparator key-chain rule with name tiebreak, paired +1/-1 rule for the residual, value-source rule on every runtime assignment, cap-at-request guard rule, index agreement, loop-carried total rule in the top-down refresh",
  "Decides structural necessary conditions of C02 for every sibling set: the split is integer-only and pure, ties are broken by the unique quota name, every distributed unit comes out of the residual, a runtime is only ever set to the request or the effective minimum max(min, guarantee), siblings are capped at their request with the surplus recycled, each delta goes to its own sibling, and each tree level's own runtime is what the next level (and its min scaling) divides. It does not decide the arithmetic claims (min guarantee, cap, conservation, proportionality) for concrete numbers.",
  "trusts go/ssa/go/types and the rule tables in internal/rules/c02.go; most of the property is numeric and is declared not decided",
  "DESIGN.md §4 C02")
