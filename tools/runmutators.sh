#!/bin/bash
# mechanical negative controls: every mutator on the anchored files of every property; prints the alarms
cd /verif
for P in ${PROPS:-C01 C02 C03 C04 C05 C06 C07 C08 C09 C10 C11 C12 C13 C14 C15 C16 C17 C18 C19 C20}; do
  for K in ${KINDS:-else locals params wrap}; do
    out=$(VERIF_HOME=/verif VERIF_REPO=/repo PATH=/opt/veriftools/go1.26.8/bin:$PATH GOTOOLCHAIN=local GOFLAGS=-mod=mod GOPROXY=off GOSUMDB=off bin/kverif $P --mutate $K 2>&1)
    echo "$P $K: $(echo "$out" | grep MUTATE | cut -c1-200)"
    echo "$out" | grep -v MUTATE | cut -c1-260 | head -8
  done
done
