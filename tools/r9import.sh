#!/bin/bash
# usage: r9import.sh <Cxx> [tag]  - imports /tmp/wt/<tag>_<Cxx>/SEED, confirms, runs the quick check, removes the agent's worktree
P=$1; TAG=${2:-r9}
/verif/tools/importseeds.sh $P /tmp/wt/${TAG}_$P $TAG 2>&1 | grep -E "RESULT|SEED|violated|undecided"
git -C /repo worktree remove --force /tmp/wt/${TAG}_$P
