#!/usr/bin/env python3
"""Regenerates /verif/MANIFEST.json from the table below (one entry per claimed property)."""
import json, os, sys
HERE = os.path.dirname(os.path.dirname(os.path.abspath(__file__)))

# property id -> (technique, level text, level note, design ref)
CLAIMED = {}
def claim(pid, technique, text, note, ref):
    CLAIMED[pid] = dict(technique=technique, text=text, note=note, ref=ref)

exec(open(os.path.join(HERE, "tools", "claims.py")).read())

props = [json.loads(l) for l in open(os.path.join(HERE, "properties.jsonl"))]
checks, na = [], []
for p in props:
    pid = p["id"]
    if pid in CLAIMED:
        c = CLAIMED[pid]
        checks.append({
            "property_id": pid,
            "quick_cmd": f"./check {pid} --tier quick",
            "thorough_cmd": f"./check {pid} --tier thorough",
            "evidence_file": f"/verif/evidence/{pid}.json",
            "replay_cmd_template": f"./check {pid} --tier quick  # the report in {{path}} names file:line, rule and construct",
            "engine": "kverif",
            "level_claimed": {"category": "other", "text": c["text"] + " Further necessary conditions added while answering the seeded changes (forwarding of every event by the entry points, pairing and provenance of operands - old with old, like with like, an amount with the object it was read from -, units, rounding direction and clamp subjects of conversions, error-path obligations) are stated rule by rule in RULES.md and in the evidence file; they are decided the same way and, like the rest, are necessary conditions, not the behaviour.", "design_ref": c["ref"] + "; sections 11.4-11.6, 15"},
            "level_note": c["note"],
            "technique": "static analysis (go/types + go/ssa; nothing executed): " + c["technique"] + "; rules grown since are listed, per property, in RULES.md (generated from the evidence); before analysis, helpers that do not exist on the reference tree are inlined at source level and renamed functions/parameters are mapped back (DESIGN.md section 14)",
        })
    else:
        na.append({"property_id": pid, "reason": NOT_CLAIMED.get(pid, "no sound static rule built yet for any clause of this property (see DESIGN.md)")})

m = {
    "version": 1,
    "setup_cmd": "./check --build --warm",
    "hooks": {
        "guard": "verif",
        "enable": "no hooks: the checks only read /repo's source (go/packages + go/ssa); nothing in /repo is instrumented or executed",
        "baseline_off_cmd": "cd /repo && go test -mod=mod -vet=off -count=1 -timeout 25m ./...",
        "source_commits": [],
        "add_only": True,
    },
    "engines": [{
        "name": "kverif",
        "path": "/verif/cmd/kverif",
        "serves_properties": sorted(CLAIMED),
        "kind_free_text": "repository-specific static analyser: go/packages type-checked AST + go/ssa; dominating-guard and conditional-constant path rules, must-lockset, mirror/sibling comparison, table/enum exhaustiveness, comparator and divisor rules, codec type checks; obligations keyed by rule+construct with floors",
    }],
    "checks": checks,
    "not_applicable": na,
    "notes": "Every check decides structural necessary conditions of its property on the current source of /repo (level other); the evidence file lists what is decided and what is not. Known genuine defects are in /verif/known_findings.json.",
}
json.dump(m, open(os.path.join(HERE, "MANIFEST.json"), "w"), indent=1)
print("claimed", len(checks), "not claimed", len(na))
