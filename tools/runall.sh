#!/bin/bash
# runs the 20 quick checks against /repo as it stands (this is what refreshes /verif/evidence); prints one line each
cd /verif
[ -n "$(git -C /repo status --porcelain)" ] && echo "WARNING: /repo has uncommitted changes"
rc=0
for P in C01 C02 C03 C04 C05 C06 C07 C08 C09 C10 C11 C12 C13 C14 C15 C16 C17 C18 C19 C20; do
  out=$(./check $P --tier ${TIER:-quick} 2>&1); r=$?
  echo "$P rc=$r $(echo "$out" | grep "tier=" | head -1)"
  [ $r -ne 0 ] && { rc=1; echo "$out" | grep -E "violated|undecided|VIOLATION" | head -5; }
done
exit $rc
