#!/bin/bash
# runs the quick check of each benign refactoring's property against the refactored tree; it must stay silent (rc=0)
cd /verif
for D in ${BENIGN:-benign/C*-*}; do
  ID=$(basename $D); P=${ID%%-*}
  cd /repo; [ -n "$(git status --porcelain)" ] && { echo "repo dirty"; exit 2; }
  git apply /verif/$D/patch.diff 2>/dev/null || { echo "BENIGN $ID: patch does not apply"; continue; }
  cd /verif && VERIF_EVIDENCE_DIR=/tmp/verif-exp-evidence ./check $P > /tmp/benign_$ID.out 2>&1; rc=$?
  cd /repo && git checkout -q -- . && git clean -fdq -- pkg apis cmd 2>/dev/null
  echo "BENIGN $ID rc=$rc $(grep -c 'violated\|undecided' /tmp/benign_$ID.out) $(grep -h normalisation: /tmp/benign_$ID.out)"
  cd /verif
done
