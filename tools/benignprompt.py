#!/usr/bin/env python3
"""Prints the prompt for a sub-agent that produces BEHAVIOUR-PRESERVING refactorings (negative controls)."""
import json, sys
pid = sys.argv[1]
wt = sys.argv[2] if len(sys.argv) > 2 else f"/tmp/wt/bn{pid}"
p = next(json.loads(l) for l in open('/verif/properties.jsonl') if json.loads(l)['id'] == pid)
mech = "\n".join(f"    - {m['name']}: {m['where']}" for m in p['anchors'].get('mechanism', []))
import os
hint=os.environ.get("BENIGN_HINT","")
text=(f"""You are helping to evaluate a verification effort for the open-source project koordinator-sh/koordinator (a Kubernetes scheduler / descheduler / node agent, written in Go). You have your own scratch git worktree of the repository at {wt} (detached HEAD of the pinned commit). Work ONLY inside {wt}; never touch /repo or /verif and do not read anything under /verif.

Here is a semantic property that the code base satisfies today:

  id: {pid}
  title: {p['title']}
  statement: {p['statement']}
  main source files: {', '.join(p['anchors']['files'])}
  mechanisms (function: location):
{mech}

YOUR TASK: produce FOUR independent, realistic, BEHAVIOUR-PRESERVING refactorings (call them A, B, C and D) of the non-test Go code that implements this property - the kind of clean-up a maintainer would merge: extracting a helper function or method, inlining a tiny helper, renaming local variables / parameters / unexported functions, turning an if/else chain into a switch (or the reverse), introducing early returns or removing them (guard clauses), hoisting a repeated expression into a local, reordering statements that are independent of each other, replacing a manual loop by an equivalent loop form, splitting a long function in two, replacing `defer mu.Unlock()` by explicit unlocks on every path (or the reverse) without changing what is protected, changing `x == false` to `!x`, and so on. Each refactoring must touch the functions listed under "mechanisms" above (or functions they call inside the same package) - that is the whole point: we want edits right in the middle of the code the property depends on. Each of A-D should use a DIFFERENT kind of refactoring and touch a different function where possible; make them non-trivial (at least ~15 changed lines each, A and B at least ~30).

Hard requirements for every refactoring:
  (1) The behaviour of the program is EXACTLY the same for every input, schedule and history: same results, same side effects, same order of externally visible effects, same locking (what is protected by which lock for how long), same error values. Do NOT fix bugs, do NOT add features, do NOT change log messages' meaning, do not weaken or strengthen any check. If in doubt, choose a more conservative refactoring. The property above must obviously still hold.
  (2) The repository still compiles (`go build` of the touched packages and of packages that import them).
  (3) The EXISTING unit tests of the touched packages still pass, unedited (`go test -mod=mod -vet=off -count=1 <pkgs>`).
  (4) `gofmt -l` reports nothing for the touched files.

Deliverables, written into {wt}/SEED/ :
  A/patch.diff   - the source change only (output of `git diff` for the non-test files), must apply with `git apply` to the pinned commit on its own (each patch independent of the others)
  A/README.md    - which functions were touched, what kind of refactoring it is, a short argument why behaviour is unchanged, the exact commands you ran (build, tests) and their outcomes
  and the same under B/, C/ and D/.
Leave the worktree itself clean of the changes at the end (git checkout -- .) - only the SEED/ directory should remain as untracked content.

Environment notes: there is NO network. Use the default `go` (it switches to the cached Go 1.25 toolchain by itself); always pass -mod=mod to go build/test; do not set GOTOOLCHAIN or GOFLAGS. Example: `cd {wt} && go test -mod=mod -vet=off -count=1 ./pkg/scheduler/plugins/elasticquota/...`. Building a package the first time can take a minute or two. Do not run the whole repository test suite; the packages you touch (and packages that directly use the touched functions) are enough. Packages under pkg/koordlet/ (and anything importing them) cannot be compiled here without a workaround because a cgo header is missing: for those add `-overlay {wt}/.perf_overlay.json` to every go build / go test / go vet command (the file is already there; it swaps one cgo file for a stub and changes nothing else; do not add it to your patch). The machine is shared with other jobs: do not use more than 4 parallel processes (-p 4).

In your final answer, summarise each refactoring in 2-3 lines (file, function, kind of refactoring) and confirm the verification results.""")
if hint:
    text=text.replace("Hard requirements for every refactoring:", hint+"\n\nHard requirements for every refactoring:")
print(text)

