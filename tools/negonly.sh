#!/bin/bash
# usage: negonly.sh C02 C11 ...   runs the behaviour-preserving refactorings of the listed properties as overlay controls; prints the ones that make a rule fire
cd /verif
export VERIF_EVIDENCE_DIR=/tmp/verif-exp-evidence
for P in "$@"; do
  ls -d benign/$P-* | xargs -P 8 -I{} sh -c 'o=$(./check '$P' --control {}/patch.diff 2>&1 | tail -1); case "$o" in *"CONTROL missed"*) ;; *) echo "{} :: $o";; esac'
  echo "neg $P done"
done
