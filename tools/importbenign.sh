#!/bin/bash
# usage: importbenign.sh <Cxx> <worktree>
# copies <worktree>/SEED/{A..D}/ to /verif/benign/<Cxx>-bn<X>/, verifies each in a scratch worktree (applies, gofmt clean,
# touched packages build, their existing tests pass), then runs the property's quick check against each: it must stay silent.
P=$1; SRC=$2; TAG=${3:-bn}
WT=/tmp/wt/confirm_bn_$P
cd /repo && git worktree remove --force $WT 2>/dev/null; git worktree add -q --detach $WT HEAD || exit 2
cat > $WT/.perf_overlay.json <<J
{"Replace": {"$WT/pkg/koordlet/util/perf_group/perf_group_linux.go": "/verif/tools/perfstub/perf_group_stub.go"}}
J
OV="-overlay $WT/.perf_overlay.json"
for d in $SRC/SEED/*/; do
  X=$(basename $d); ID=$P-$TAG$X; D=/verif/benign/$ID
  [ -f $d/patch.diff ] || continue
  mkdir -p $D && cp $d/patch.diff $d/README.md $D/ 2>/dev/null
  cd $WT && git reset -q --hard && git clean -fdq -- pkg apis cmd
  {
  echo "refactoring $ID  head $(git -C /repo log -1 --format=%h)"
  if git apply --check $D/patch.diff 2>/dev/null; then git apply $D/patch.diff; echo "apply: clean"; else echo "apply: FAILED"; echo "RESULT $ID not-applicable"; continue; fi
  FILES=$(git diff --name-only | grep '\.go$')
  PKGS=$(for f in $FILES; do echo ./$(dirname $f); done | sort -u | tr '\n' ' ')
  FM=$(gofmt -l $FILES)
  [ -z "$FM" ] && echo "gofmt: clean" || echo "gofmt: NOT clean: $FM"
  if go test -mod=mod -vet=off -count=1 -p 6 $OV $PKGS > /tmp/wt/confirm_bn.log 2>&1; then echo "existing tests of $PKGS: PASS"; E=ok; else echo "existing tests of $PKGS: FAIL"; grep -m5 -E "^(---|FAIL|ok)" /tmp/wt/confirm_bn.log; E=bad; fi
  if [ $E = ok ]; then echo "RESULT $ID verified"; else echo "RESULT $ID NOT-verified"; fi
  } > $D/confirm.txt 2>&1
  tail -1 $D/confirm.txt
done
cd /repo && git worktree remove --force $WT
for D in /verif/benign/$P-$TAG*; do
  ID=$(basename $D)
  if [ -n "$CONTROL_REPO" ]; then
    # in-process variant (overlay on a scratch worktree): does not touch /repo, usable while a regression runs there
    cd /verif && out=$(VERIF_REPO=$CONTROL_REPO VERIF_EVIDENCE_DIR=/tmp/verif-exp-evidence ./check $P --control $D/patch.diff 2>&1 | grep "^CONTROL" | cut -c1-600)
    case "$out" in *missed*) rc=0;; *) rc=1;; esac
    echo "BENIGN $ID rc=$rc"; [ $rc = 1 ] && echo "  $out"
    continue
  fi
  cd /repo; [ -n "$(git status --porcelain)" ] && { echo "repo dirty"; exit 2; }
  git apply $D/patch.diff 2>/dev/null || { echo "BENIGN $ID: patch does not apply"; continue; }
  cd /verif && VERIF_EVIDENCE_DIR=/tmp/verif-exp-evidence ./check $P > /tmp/benign_$ID.out 2>&1; rc=$?
  cd /repo && git checkout -q -- . && git clean -fdq -- pkg apis cmd 2>/dev/null
  echo "BENIGN $ID rc=$rc"; grep -E "violated|undecided" /tmp/benign_$ID.out | head -6
done
