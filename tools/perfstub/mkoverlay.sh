#!/bin/bash
# usage: mkoverlay.sh <worktree>  -> prints path of an overlay json making koordlet packages testable here
WT="${1:?worktree}"
OUT="$WT/.perf_overlay.json"
cat > "$OUT" <<J
{"Replace": {"$WT/pkg/koordlet/util/perf_group/perf_group_linux.go": "/verif/tools/perfstub/perf_group_stub.go"}}
J
echo "$OUT"
