//go:build linux

// Stub of pkg/koordlet/util/perf_group used ONLY through `go test -overlay` in scratch worktrees,
// because the cgo header perfmon/pfmlib.h is not installed in this sandbox. Never committed to /repo.
package perf_group

import (
	"errors"
	"os"
)

var EventsMap = map[string][]string{"CPICollector": {"cycles", "instructions"}}

type PerfGroupCollector struct{}

func InitBufferPool(eventsNums map[int]struct{}) {}
func LibInit()                                    {}
func LibFinalize()                                {}

func GetAndStartPerfGroupCollectorOnContainer(cgroupFile *os.File, cpus []int, events []string) (*PerfGroupCollector, error) {
	return nil, errors.New("perf_group stub")
}

func GetContainerPerfResult(collector *PerfGroupCollector) (map[string]float64, error) {
	return nil, errors.New("perf_group stub")
}

func GetContainerCyclesAndInstructionsGroup(collector *PerfGroupCollector) (float64, float64, error) {
	return 0, 0, errors.New("perf_group stub")
}
