#!/bin/bash
# runs the quick check of each seed's property against the seeded change; prints one line per seed
cd /verif
for D in ${SEEDS:-seeded/C*-*}; do
  S=$(basename $D)
  out=$(tools/runseed.sh $S 2>&1 | head -1)
  echo "$out"
done
