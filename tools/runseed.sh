#!/bin/bash
# usage: runseed.sh <seed-id e.g. C04-A> [tier]   applies the seeded patch to /repo, runs the property's check, reverts
S="$1"; T="${2:-quick}"; P="${S%%-*}"
D=/verif/seeded/$S
cd /repo || exit 2
if [ -n "$(git status --porcelain)" ]; then echo "repo dirty"; exit 2; fi
if ! git apply --check "$D/patch.diff" 2>/dev/null; then
  if ! git apply --3way --check "$D/patch.diff" 2>/dev/null; then echo "SEED $S: patch does not apply"; exit 3; fi
  git apply --3way "$D/patch.diff" >/dev/null 2>&1; git reset -q
else
  git apply "$D/patch.diff"
fi
cd /verif && VERIF_EVIDENCE_DIR=/tmp/verif-exp-evidence ./check $P --tier $T > /tmp/seed_$S.out 2>&1; rc=$?
cp /tmp/verif-exp-evidence/$P.json /tmp/seed_$S.evidence.json 2>/dev/null
cd /repo && git checkout -q -- . && git clean -fdq -- pkg apis cmd 2>/dev/null
echo "SEED $S rc=$rc"; grep -E "violated|undecided" /tmp/seed_$S.out | head -5
exit 0
