#!/bin/bash
# usage: importseeds.sh <Cxx> <worktree> <round-tag e.g. r2>
# copies <worktree>/SEED/{A,B,C,...}/ to /verif/seeded/<Cxx>-<tag><X>/, confirms each in a scratch worktree, runs the quick check against each
P=$1; WT=$2; TAG=${3:-r2}
L=""
for d in $WT/SEED/*/; do
  X=$(basename $d); ID=$P-$TAG$X
  mkdir -p /verif/seeded/$ID && cp $d/* /verif/seeded/$ID/
  L="$L /verif/seeded/$ID"
done
SEEDS="$L" WT=/tmp/wt/confirm_$P /verif/tools/confirmseeds.sh
for D in $L; do /verif/tools/runseed.sh $(basename $D); done
