#!/usr/bin/env python3
"""Prints the prompt for a seeding sub-agent: only the property text and its scratch worktree."""
import json, sys
pid = sys.argv[1]
wt = sys.argv[2] if len(sys.argv) > 2 else f"/tmp/wt/{pid}"
N = int(sys.argv[3]) if len(sys.argv) > 3 else 2
letters = "ABCDE"[:N]
repl = {"@@N@@": {2:"TWO",3:"THREE"}[N], "@@NAMES@@": ", ".join(letters[:-1])+" and "+letters[-1], "@@OTHERS@@": ", ".join(l+"/" for l in letters[1:])}
p = next(json.loads(l) for l in open('/verif/properties.jsonl') if json.loads(l)['id'] == pid)
text = (f"""You are helping to evaluate a verification effort for the open-source project koordinator-sh/koordinator (a Kubernetes scheduler / descheduler / node agent, written in Go). You have your own scratch git worktree of the repository at {wt} (detached HEAD of the pinned commit). Work ONLY inside {wt}; never touch /repo or /verif and do not read anything under /verif.

Here is a semantic property that the code base is supposed to satisfy:

  id: {pid}
  title: {p['title']}
  statement: {p['statement']}
  quantified over: {p['quantifier']['text']}
  main source files: {', '.join(p['anchors']['files'])}

YOUR TASK: produce @@N@@ independent, realistic source changes (call them @@NAMES@@, each touching a different function and a different mechanism; spread them over different files of the list above, and prefer places that are NOT the most obvious one) to the non-test Go code of koordinator that each BREAK this property, while
  (1) the repository still compiles (`go build ./...` for the touched packages), and
  (2) the EXISTING unit tests of the touched packages still pass, unedited (`go test -mod=mod -vet=off -count=1 <pkgs>`), and
  (3) the breakage needs something specific to manifest: a particular interleaving, a crash or fault at a particular point, a multi-step sequence of operations, an unusual input, or two cooperating sites that each look fine alone. NOT a change that ordinary use or the existing tests would expose at once. Think of the kind of subtle regression a well-meaning refactoring or "optimisation" could introduce: a dropped update on one branch, a check moved after an effect, a lock narrowed, a comparison against the wrong limit, an asymmetric add/remove, a missed index, an off-by-one in a boundary nobody tests.

For EACH change also write a DEMONSTRATION: a new Go test file (name it zz_seed_<LETTER>_test.go, placed in the relevant package directory) that FAILS with the change applied and PASSES on the unchanged code. Verify both directions yourself (git stash / git apply as needed).

Deliverables, written into {wt}/SEED/ :
  A/patch.diff   - the source change only (output of `git diff` for the non-test files), must apply with `git apply` to the pinned commit
  A/zz_seed_A_test.go - the demonstration test, plus A/demo_path.txt containing the repo-relative path where it must be placed (e.g. pkg/foo/zz_seed_A_test.go)
  A/README.md    - which clause of the property it breaks, what is needed for it to manifest, the exact commands you ran (build, existing tests, demo with and without the patch) and their outcomes
  and the same under @@OTHERS@@ .
Leave the worktree itself clean of the changes at the end (git checkout -- . ; remove the demo test files from the package dirs) - only the SEED/ directory should remain as untracked content.

Environment notes: there is NO network. Use the default `go` (it switches to the cached Go 1.25 toolchain by itself); always pass -mod=mod to go build/test; do not set GOTOOLCHAIN or GOFLAGS. Example: `cd {wt} && go test -mod=mod -vet=off -count=1 ./pkg/scheduler/plugins/elasticquota/...`. Building a package the first time can take a minute or two. Do not run the whole repository test suite; the packages you touch (and packages that directly use the touched functions) are enough. Packages under pkg/koordlet/ (and anything importing them) cannot be compiled here without a workaround because a cgo header is missing: for those add `-overlay {wt}/.perf_overlay.json` to every go build / go test / go vet command (the file is already there; it swaps one cgo file for a stub and changes nothing else; git ignores nothing - do not add it to your patch). The machine is shared with other jobs: do not use more than 4 parallel processes (-p 4).

If after a genuine effort one of the changes cannot be made to satisfy all conditions, deliver only the others and say so. In your final answer, summarise each change in 3-4 lines (file, function, what was changed, what it needs to manifest) and confirm the verification results.""")
import os
hint = os.environ.get("ROUND_HINT", "")
if hint:
    text = text.replace("YOUR TASK:", hint + "\n\nYOUR TASK:")
for k,v in repl.items():
    text = text.replace(k, v)
print(text)
