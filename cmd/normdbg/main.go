package main

import (
	"fmt"
	"os"

	"kverif/internal/load"
)

func main() {
	p, err := load.LoadNormalized("/repo", nil, nil, "/verif/reference/known_funcs.txt")
	if err != nil {
		fmt.Println(err)
		os.Exit(2)
	}
	fmt.Println("new:", p.NewFuncs)
	fmt.Println("inlined:", p.Inlined)
	fmt.Println("skipped:", p.Skipped)
	fmt.Println("notes:", p.Notes)
	if len(os.Args) > 1 {
		for k, v := range p.Normalized {
			fmt.Println("====", k)
			if os.Args[1] == "-v" {
				fmt.Println(string(v))
			}
		}
	}
}
