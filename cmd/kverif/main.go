// kverif decides the koordinator properties of /verif/properties.jsonl by static analysis
// of /repo's current working tree. Usage: kverif CNN [--tier quick|thorough]
package main

import (
	"encoding/json"
	"fmt"
	"kverif/internal/mut"
	"kverif/internal/norm"
	"os"
	"os/exec"
	"path/filepath"
	"runtime/debug"
	"sort"
	"strconv"
	"strings"
	"sync"

	"kverif/internal/load"
	"kverif/internal/report"
	"kverif/internal/rules"
)

func main() {
	home := os.Getenv("VERIF_HOME")
	if home == "" {
		home = "/verif"
	}
	repo := os.Getenv("VERIF_REPO")
	if repo == "" {
		repo = "/repo"
	}
	args := os.Args[1:]
	if len(args) == 0 {
		fmt.Println("usage: kverif CNN [--tier quick|thorough] | --warm | --list")
		os.Exit(2)
	}
	tier := os.Getenv("VERIF_TIER")
	if tier == "" {
		tier = "quick"
	}
	seed, _ := strconv.Atoi(os.Getenv("VERIF_SEED"))
	var prop, controlPatch, mutateKind string
	for i := 0; i < len(args); i++ {
		switch args[i] {
		case "--tier":
			if i+1 < len(args) {
				tier = args[i+1]
				i++
			}
		case "--warm":
			p, err := load.Load(repo, nil, nil)
			if err != nil {
				fmt.Println("warm load failed:", err)
				os.Exit(2)
			}
			fmt.Printf("warm load: %d packages in %.1fs\n", len(p.Pkgs), p.LoadTime.Seconds())
			os.Exit(0)
		case "--dump":
			// developer aid: kverif --dump effects|calls|guards <pkg> <recv|-> <func>
			p, err := load.Load(repo, nil, nil)
			if err != nil {
				fmt.Println(err)
				os.Exit(2)
			}
			if args[i+1] == "div" {
				rules.DumpDiv(p, args[i+2])
				os.Exit(0)
			}
			rules.Dump(p, args[i+1], args[i+2], args[i+3], args[i+4])
			os.Exit(0)
		case "--mutate":
			if i+1 < len(args) {
				mutateKind = args[i+1]
				i++
			}
		case "--control":
			if i+1 < len(args) {
				controlPatch = args[i+1]
				i++
			}
		case "--genforward":
			// writes the reference table of unavoidable callees of event entry points (run on the reference tree only)
			p, err := load.Load(repo, nil, nil)
			if err != nil {
				fmt.Println(err)
				os.Exit(2)
			}
			n, err := rules.GenForward(p, home)
			if err != nil {
				fmt.Println(err)
				os.Exit(2)
			}
			fmt.Printf("%d pairs written\n", n)
			os.Exit(0)
		case "--genknown":
			// writes the reference function list from the current tree (run on the reference tree only)
			p, err := load.Load(repo, nil, nil)
			if err != nil {
				fmt.Println(err)
				os.Exit(2)
			}
			keys := norm.DeclaredFuncs(p.Pkgs)
			os.MkdirAll(filepath.Join(home, "reference"), 0o755)
			if err := os.WriteFile(filepath.Join(home, "reference", "known_funcs.txt"), []byte(strings.Join(keys, "\n")+"\n"), 0o644); err != nil {
				fmt.Println(err)
				os.Exit(2)
			}
			cl := norm.DeclaredClosures(p.Pkgs)
			if err := os.WriteFile(filepath.Join(home, "reference", "known_closures.txt"), []byte(strings.Join(cl, "\n")+"\n"), 0o644); err != nil {
				fmt.Println(err)
				os.Exit(2)
			}
			fmt.Printf("%d functions, %d local closures written\n", len(keys), len(cl))
			os.Exit(0)
		case "--list":
			var ids []string
			for id := range rules.Registry {
				ids = append(ids, id)
			}
			sort.Strings(ids)
			for _, id := range ids {
				fmt.Println(id)
			}
			os.Exit(0)
		default:
			prop = args[i]
		}
	}
	if tier != "quick" && tier != "thorough" {
		fmt.Println("unknown tier", tier)
		os.Exit(2)
	}
	fn, ok := rules.Registry[prop]
	if !ok {
		fmt.Println("unknown property", prop)
		os.Exit(2)
	}
	if mutateKind != "" {
		os.Exit(runMutate(repo, home, prop, mutateKind, controlPatch, fn))
	}
	if controlPatch != "" {
		os.Exit(runControl(repo, home, prop, controlPatch, fn))
	}
	run := report.NewRun(prop, tier, seed)
	p, err := load.LoadNormalized(repo, nil, nil, filepath.Join(home, "reference", "known_funcs.txt"))
	if err != nil {
		// no verdict possible: this is a failure of the check, reported as undecided
		run.Unknown("LOAD", "go/packages", "", err.Error())
		os.Exit(run.Finish(home, nil))
	}
	if len(p.Pkgs) < 250 {
		run.Unknown("LOAD", "package-count", "", fmt.Sprintf("only %d packages loaded, expected at least 250", len(p.Pkgs)))
	}
	ctx := &rules.Ctx{P: p, R: run, Tier: tier, Home: home}
	func() {
		defer func() {
			if e := recover(); e != nil {
				run.Unknown("PANIC", "checker", "", fmt.Sprintf("%v\n%s", e, debug.Stack()))
			}
		}()
		fn(ctx)
		ctx.Forward(prop)
	}()
	extra := map[string]any{}
	if tier == "thorough" {
		extra["positive_controls"] = runControls(home, prop)
	}
	extra2 := map[string]any{
		"packages_loaded":       len(p.Pkgs),
		"load_s":                p.LoadTime.Seconds(),
		"tolerated_load_errors": p.Tolerated,
		"normalisation": map[string]any{
			"how":               "functions that do not exist on the reference tree (reference/known_funcs.txt) are inlined at source level into their in-package callers before the rules run (go/packages overlay; nothing written, nothing executed); on the reference tree the list below is empty and the step is a no-op",
			"unknown_functions": p.NewFuncs,
			"renamed_functions": p.Renamed,
			"inlined_calls":     p.Inlined,
			"calls_left_alone":  p.Skipped,
			"notes":             p.Notes,
		},
	}
	for _, rn := range p.Renamed {
		fmt.Println("normalisation:", rn)
	}
	if len(p.NewFuncs) > 0 {
		fmt.Printf("normalisation: %d function(s) unknown on the reference tree, %d call(s) inlined, %d left alone\n", len(p.NewFuncs), len(p.Inlined), len(p.Skipped))
	}
	for k, v := range extra2 {
		extra[k] = v
	}
	os.Exit(run.Finish(home, extra))
}

// alarmKeys lists the obligations of a run that are not discharged, leaving out recorded known findings.
func alarmKeys(home, prop string, run *report.Run, detail bool) []string {
	known, _ := report.LoadKnown(filepath.Join(home, "known_findings.json"))
	isKnown := map[string]bool{}
	if known != nil {
		for _, k := range known.Findings {
			if k.Property == prop {
				isKnown[k.Key] = true
			}
		}
	}
	var keys []string
	for _, o := range run.Obls {
		if o.Status == report.Discharged || isKnown[o.Key] {
			continue
		}
		if detail {
			keys = append(keys, o.Key+" ["+o.Detail+"]")
		} else {
			keys = append(keys, o.Key)
		}
	}
	sort.Strings(keys)
	return keys
}

// runMutate applies a mechanical behaviour-preserving mutator (package mut) to the property's anchored files as an
// overlay and runs the rules: they must stay silent. Exit: 0 silent, 3 alarm, 4 the variant does not load.
func runMutate(repo, home, prop, kind, patch string, fn func(*rules.Ctx)) int {
	var overlay0 map[string][]byte
	if patch != "" {
		var perr error
		overlay0, perr = overlayFromPatch(repo, patch)
		if perr != nil {
			fmt.Printf("MUTATE stale patch=%s reason=%v\n", patch, perr)
			return 4
		}
	}
	base, err := load.Load(repo, nil, overlay0)
	if err != nil {
		fmt.Println("MUTATE stale: ", err)
		return 4
	}
	files := map[string]bool{}
	data, _ := os.ReadFile(filepath.Join(home, "properties.jsonl"))
	for _, line := range strings.Split(string(data), "\n") {
		if !strings.Contains(line, `"id": "`+prop+`"`) && !strings.Contains(line, `"id":"`+prop+`"`) {
			continue
		}
		var p struct {
			Anchors struct {
				Files []string `json:"files"`
			} `json:"anchors"`
		}
		if json.Unmarshal([]byte(line), &p) == nil {
			for _, f := range p.Anchors.Files {
				files[filepath.Join(repo, f)] = true
			}
		}
	}
	for f := range overlay0 {
		files[f] = true
	}
	overlay, n, err := mut.Variant(base.Fset, base.Pkgs, files, kind, overlay0)
	for f, b := range overlay0 {
		if _, ok := overlay[f]; !ok && overlay != nil {
			overlay[f] = b
		}
	}
	if err != nil || n == 0 {
		fmt.Printf("MUTATE stale kind=%s edits=%d err=%v\n", kind, n, err)
		return 4
	}
	p, err := load.LoadNormalized(repo, nil, overlay, filepath.Join(home, "reference", "known_funcs.txt"))
	if err != nil {
		fmt.Printf("MUTATE stale kind=%s edits=%d reason=load: %v\n", kind, n, err)
		return 4
	}
	run := report.NewRun(prop, "quick", 0)
	ctx := &rules.Ctx{P: p, R: run, Tier: "quick", Home: home}
	func() {
		defer func() {
			if e := recover(); e != nil {
				run.Unknown("PANIC", "checker", "", fmt.Sprint(e))
			}
		}()
		fn(ctx)
		ctx.Forward(prop)
	}()
	keys := alarmKeys(home, prop, run, true)
	note := fmt.Sprintf("files=%d edits=%d unknown=%d inlined=%d left=%d notes=%v", len(overlay), n, len(p.NewFuncs), len(p.Inlined), len(p.Skipped), p.Notes)
	if os.Getenv("KVERIF_DEBUG") != "" {
		inl := map[string]bool{}
		for _, x := range p.Inlined {
			inl[x] = true
		}
		fmt.Println("SKIPPED:", strings.Join(p.Skipped, "\n  "))
		fmt.Println("INLINED-AWAY:", len(p.InlinedAway))
		for _, f := range p.NewFuncs {
			found := false
			for _, x := range p.Inlined {
				if strings.Contains(x, "<- "+f[strings.LastIndex(f, ".")+1:]+" ") {
					found = true
				}
			}
			if !found {
				fmt.Println("NOT-INLINED:", f)
			}
		}
	}
	if len(keys) == 0 {
		fmt.Printf("MUTATE silent kind=%s %s\n", kind, note)
		return 0
	}
	fmt.Printf("MUTATE alarm kind=%s %s n=%d\n  %s\n", kind, note, len(keys), strings.Join(keys, "\n  "))
	return 3
}

// runControl applies a seeded patch as a go/packages overlay (nothing is written into /repo, nothing is executed),
// runs the property's rules and reports whether they fire. Exit: 0 fired, 3 not fired, 4 stale (patch does not apply).
func runControl(repo, home, prop, patch string, fn func(*rules.Ctx)) int {
	overlay, err := overlayFromPatch(repo, patch)
	if err != nil {
		fmt.Printf("CONTROL stale patch=%s reason=%v\n", patch, err)
		return 4
	}
	p, err := load.LoadNormalized(repo, nil, overlay, filepath.Join(home, "reference", "known_funcs.txt"))
	if err != nil {
		fmt.Printf("CONTROL stale patch=%s reason=load: %v\n", patch, err)
		return 4
	}
	run := report.NewRun(prop, "quick", 0)
	ctx := &rules.Ctx{P: p, R: run, Tier: "quick", Home: home}
	func() {
		defer func() {
			if e := recover(); e != nil {
				run.Unknown("PANIC", "checker", "", fmt.Sprint(e))
			}
		}()
		fn(ctx)
		ctx.Forward(prop)
	}()
	keys := alarmKeys(home, prop, run, os.Getenv("KVERIF_DEBUG") != "")
	if os.Getenv("KVERIF_DEBUG") != "" {
		fmt.Printf("normalisation: new=%v inlined=%v skipped=%v notes=%v\n", p.NewFuncs, p.Inlined, p.Skipped, p.Notes)
	}
	if len(keys) == 0 {
		fmt.Printf("CONTROL missed patch=%s\n", patch)
		return 3
	}
	fmt.Printf("CONTROL fired patch=%s n=%d keys=%s\n", patch, len(keys), strings.Join(keys, " ;; "))
	return 0
}

func overlayFromPatch(repo, patch string) (map[string][]byte, error) {
	data, err := os.ReadFile(patch)
	if err != nil {
		return nil, err
	}
	var files []string
	for _, l := range strings.Split(string(data), "\n") {
		if strings.HasPrefix(l, "+++ b/") {
			files = append(files, strings.TrimSpace(strings.TrimPrefix(l, "+++ b/")))
		}
	}
	if len(files) == 0 {
		return nil, fmt.Errorf("no files in patch")
	}
	tmp, err := os.MkdirTemp("", "kverif-control-")
	if err != nil {
		return nil, err
	}
	defer os.RemoveAll(tmp)
	for _, f := range files {
		src, err := os.ReadFile(filepath.Join(repo, f))
		if err != nil {
			return nil, err
		}
		dst := filepath.Join(tmp, f)
		if err := os.MkdirAll(filepath.Dir(dst), 0o755); err != nil {
			return nil, err
		}
		if err := os.WriteFile(dst, src, 0o644); err != nil {
			return nil, err
		}
	}
	abs, _ := filepath.Abs(patch)
	cmd := exec.Command("git", "apply", abs)
	cmd.Dir = tmp
	if out, err := cmd.CombinedOutput(); err != nil {
		return nil, fmt.Errorf("patch does not apply to the current tree: %s", strings.TrimSpace(string(out)))
	}
	ov := map[string][]byte{}
	for _, f := range files {
		b, err := os.ReadFile(filepath.Join(tmp, f))
		if err != nil {
			return nil, err
		}
		ov[filepath.Join(repo, f)] = b
	}
	return ov, nil
}

// runControls runs every seeded change of the property as a positive control, each in its own process.
func runControls(home, prop string) map[string]any {
	type res struct{ name, line string }
	run := func(dirs []string) []res {
		out := make([]res, len(dirs))
		sem := make(chan struct{}, 6)
		var wg sync.WaitGroup
		for i, d := range dirs {
			patch := filepath.Join(d, "patch.diff")
			if _, err := os.Stat(patch); err != nil {
				continue
			}
			wg.Add(1)
			go func(i int, d, patch string) {
				defer wg.Done()
				sem <- struct{}{}
				defer func() { <-sem }()
				cmd := exec.Command(os.Args[0], prop, "--control", patch)
				cmd.Env = os.Environ()
				o, _ := cmd.CombinedOutput()
				line := strings.TrimSpace(string(o))
				if k := strings.LastIndex(line, "CONTROL "); k >= 0 {
					line = line[k:]
				}
				out[i] = res{filepath.Base(d), line}
			}(i, d, patch)
		}
		wg.Wait()
		return out
	}
	dirs, _ := filepath.Glob(filepath.Join(home, "seeded", prop+"-*"))
	sort.Strings(dirs)
	var fired, missed, stale []string
	for _, r := range run(dirs) {
		switch {
		case r.name == "":
		case strings.HasPrefix(r.line, "CONTROL fired"):
			fired = append(fired, r.name+": "+truncate(r.line, 300))
		case strings.HasPrefix(r.line, "CONTROL missed"):
			missed = append(missed, r.name)
			fmt.Printf("CONTROL-MISSED property=%s seed=%s (the seeded change applies to the current tree but no rule fires)\n", prop, r.name)
		default:
			stale = append(stale, r.name+": "+truncate(r.line, 200))
		}
	}
	fmt.Printf("positive controls for %s: %d fired, %d missed, %d stale\n", prop, len(fired), len(missed), len(stale))
	// negative controls: behaviour-preserving refactorings of the anchored code must leave every rule silent
	ndirs, _ := filepath.Glob(filepath.Join(home, "benign", prop+"-*"))
	sort.Strings(ndirs)
	var silent, alarms, nstale []string
	for _, r := range run(ndirs) {
		switch {
		case r.name == "":
		case strings.HasPrefix(r.line, "CONTROL missed"):
			silent = append(silent, r.name)
		case strings.HasPrefix(r.line, "CONTROL fired"):
			alarms = append(alarms, r.name+": "+truncate(r.line, 300))
			fmt.Printf("NEGATIVE-CONTROL-ALARM property=%s refactoring=%s (a behaviour-preserving refactoring makes a rule fire: false alarm of the machinery) %s\n", prop, r.name, truncate(r.line, 300))
		default:
			nstale = append(nstale, r.name+": "+truncate(r.line, 200))
		}
	}
	fmt.Printf("negative controls for %s: %d silent, %d false alarms, %d stale\n", prop, len(silent), len(alarms), len(nstale))
	return map[string]any{"fired": fired, "missed": missed, "stale": stale,
		"negative_silent": silent, "negative_false_alarms": alarms, "negative_stale": nstale,
		"how": "each seeded change under /verif/seeded (must fire) and each behaviour-preserving refactoring under /verif/benign (must stay silent) is applied as a go/packages overlay (no write into /repo, no execution) in a separate process and the property's rules are re-run; a control that no longer applies to the current tree is stale, not a failure"}
}

func truncate(s string, n int) string {
	if len(s) > n {
		return s[:n] + "…"
	}
	return s
}
