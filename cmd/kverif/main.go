// kverif decides the koordinator properties of /verif/properties.jsonl by static analysis
// of /repo's current working tree. Usage: kverif CNN [--tier quick|thorough]
package main

import (
	"fmt"
	"os"
	"runtime/debug"
	"sort"
	"strconv"

	"kverif/internal/load"
	"kverif/internal/report"
	"kverif/internal/rules"
)

func main() {
	home := os.Getenv("VERIF_HOME")
	if home == "" {
		home = "/verif"
	}
	repo := os.Getenv("VERIF_REPO")
	if repo == "" {
		repo = "/repo"
	}
	args := os.Args[1:]
	if len(args) == 0 {
		fmt.Println("usage: kverif CNN [--tier quick|thorough] | --warm | --list")
		os.Exit(2)
	}
	tier := os.Getenv("VERIF_TIER")
	if tier == "" {
		tier = "quick"
	}
	seed, _ := strconv.Atoi(os.Getenv("VERIF_SEED"))
	var prop string
	for i := 0; i < len(args); i++ {
		switch args[i] {
		case "--tier":
			if i+1 < len(args) {
				tier = args[i+1]
				i++
			}
		case "--warm":
			p, err := load.Load(repo, nil, nil)
			if err != nil {
				fmt.Println("warm load failed:", err)
				os.Exit(2)
			}
			fmt.Printf("warm load: %d packages in %.1fs\n", len(p.Pkgs), p.LoadTime.Seconds())
			os.Exit(0)
		case "--dump":
			// developer aid: kverif --dump effects|calls|guards <pkg> <recv|-> <func>
			p, err := load.Load(repo, nil, nil)
			if err != nil {
				fmt.Println(err)
				os.Exit(2)
			}
			if args[i+1] == "div" {
				rules.DumpDiv(p, args[i+2])
				os.Exit(0)
			}
			rules.Dump(p, args[i+1], args[i+2], args[i+3], args[i+4])
			os.Exit(0)
		case "--list":
			var ids []string
			for id := range rules.Registry {
				ids = append(ids, id)
			}
			sort.Strings(ids)
			for _, id := range ids {
				fmt.Println(id)
			}
			os.Exit(0)
		default:
			prop = args[i]
		}
	}
	if tier != "quick" && tier != "thorough" {
		fmt.Println("unknown tier", tier)
		os.Exit(2)
	}
	fn, ok := rules.Registry[prop]
	if !ok {
		fmt.Println("unknown property", prop)
		os.Exit(2)
	}
	run := report.NewRun(prop, tier, seed)
	p, err := load.Load(repo, nil, nil)
	if err != nil {
		// no verdict possible: this is a failure of the check, reported as undecided
		run.Unknown("LOAD", "go/packages", "", err.Error())
		os.Exit(run.Finish(home, nil))
	}
	if len(p.Pkgs) < 250 {
		run.Unknown("LOAD", "package-count", "", fmt.Sprintf("only %d packages loaded, expected at least 250", len(p.Pkgs)))
	}
	ctx := &rules.Ctx{P: p, R: run, Tier: tier, Home: home}
	func() {
		defer func() {
			if e := recover(); e != nil {
				run.Unknown("PANIC", "checker", "", fmt.Sprintf("%v\n%s", e, debug.Stack()))
			}
		}()
		fn(ctx)
	}()
	extra := map[string]any{
		"packages_loaded": len(p.Pkgs),
		"load_s":          p.LoadTime.Seconds(),
		"tolerated_load_errors": p.Tolerated,
	}
	os.Exit(run.Finish(home, extra))
}
