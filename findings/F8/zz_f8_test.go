package resourceexecutor

import (
	"testing"

	"github.com/koordinator-sh/koordinator/pkg/util/cache"
	sysutil "github.com/koordinator-sh/koordinator/pkg/koordlet/util/system"
)

// F8 (C12): a shifting cpuset rewrite 0-3 -> 2-5 over parent and child through LeveledUpdateBatch.
// When the rewrite completes every file must hold its target value.
func TestF8_LeveledCPUSetShiftReachesTarget(t *testing.T) {
	helper := sysutil.NewFileTestUtil(t)
	defer helper.Cleanup()
	parent, child := "kubepods.slice/kubepods-besteffort.slice", "kubepods.slice/kubepods-besteffort.slice/pod1"
	helper.WriteCgroupFileContents(parent, sysutil.CPUSet, "0-3")
	helper.WriteCgroupFileContents(child, sysutil.CPUSet, "0-3")
	e := &ResourceUpdateExecutorImpl{ResourceCache: cache.NewCacheDefault(), Config: NewDefaultConfig()}
	stop := make(chan struct{})
	defer close(stop)
	e.Run(stop)
	pu, err := DefaultCgroupUpdaterFactory.New(sysutil.CPUSetCPUSName, parent, "2-5", nil)
	if err != nil {
		t.Fatal(err)
	}
	cu, err := DefaultCgroupUpdaterFactory.New(sysutil.CPUSetCPUSName, child, "2-5", nil)
	if err != nil {
		t.Fatal(err)
	}
	e.LeveledUpdateBatch([][]ResourceUpdater{{pu}, {cu}})
	for _, dir := range []string{parent, child} {
		if got := helper.ReadCgroupFileContents(dir, sysutil.CPUSet); got != "2-5" {
			t.Fatalf("%s/cpuset.cpus = %q after the leveled rewrite, target is 2-5", dir, got)
		}
	}
}
