package evictions

import (
	"context"
	"fmt"
	"sync"
	"testing"
	"time"

	corev1 "k8s.io/api/core/v1"
	metav1 "k8s.io/apimachinery/pkg/apis/meta/v1"
	"k8s.io/apimachinery/pkg/runtime"
	"k8s.io/client-go/kubernetes/fake"
	core "k8s.io/client-go/testing"
	"k8s.io/client-go/tools/record"
	"k8s.io/utils/ptr"

	"github.com/koordinator-sh/koordinator/pkg/descheduler/framework"
)

// F5 (C16): 16 workers evict 16 different pods of one node concurrently with maxPodsToEvictPerNode=2.
// The evictions actually issued must not exceed the cap and the counter must equal them.
func TestF5_PodEvictorCapUnderConcurrency(t *testing.T) {
	fakeClient := fake.NewSimpleClientset()
	var issued int
	var mu sync.Mutex
	fakeClient.PrependReactor("create", "pods", func(action core.Action) (bool, runtime.Object, error) {
		if action.GetSubresource() != "eviction" {
			return false, nil, nil
		}
		time.Sleep(5 * time.Millisecond) // the API call takes a moment
		mu.Lock()
		issued++
		mu.Unlock()
		return true, nil, nil
	})
	pe := NewPodEvictor(fakeClient, record.NewEventRecorderAdapter(record.NewFakeRecorder(1024)), "", false, ptr.To[uint](2), nil)
	ctx := context.TODO()
	var wg sync.WaitGroup
	for i := 0; i < 16; i++ {
		wg.Add(1)
		go func(i int) {
			defer wg.Done()
			pod := &corev1.Pod{ObjectMeta: metav1.ObjectMeta{Namespace: "default", Name: fmt.Sprintf("p%d", i)}, Spec: corev1.PodSpec{NodeName: "n1"}}
			pe.Evict(ctx, pod, framework.EvictOptions{})
		}(i)
	}
	wg.Wait()
	if issued > 2 || pe.NodeEvicted("n1") != uint(issued) {
		t.Fatalf("cap per node is 2 but %d evictions were issued (counter says %d)", issued, pe.NodeEvicted("n1"))
	}
}
