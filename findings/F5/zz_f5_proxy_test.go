package runtime

import (
	"context"
	"fmt"
	"sync"
	"sync/atomic"
	"testing"
	"time"

	corev1 "k8s.io/api/core/v1"
	metav1 "k8s.io/apimachinery/pkg/apis/meta/v1"
	"k8s.io/utils/ptr"

	"github.com/koordinator-sh/koordinator/pkg/descheduler/evictions"
	"github.com/koordinator-sh/koordinator/pkg/descheduler/framework"
)

type f5Evict struct{ issued int32 }

func (p *f5Evict) Name() string { return "f5" }
func (p *f5Evict) Evict(ctx context.Context, pod *corev1.Pod, opts framework.EvictOptions) bool {
	time.Sleep(5 * time.Millisecond)
	atomic.AddInt32(&p.issued, 1)
	return true
}

// F5 (C16): several plugins/workers evict through the framework's evictor concurrently with a total cap of 3.
func TestF5_EvictorProxyCapUnderConcurrency(t *testing.T) {
	plugin := &f5Evict{}
	limiter := evictions.NewEvictionLimiter(nil, nil, ptr.To[uint](3))
	fw := &frameworkImpl{evictionLimiter: limiter, evictPlugins: []framework.EvictPlugin{plugin}}
	var wg sync.WaitGroup
	for i := 0; i < 16; i++ {
		wg.Add(1)
		go func(i int) {
			defer wg.Done()
			pod := &corev1.Pod{ObjectMeta: metav1.ObjectMeta{Namespace: "default", Name: fmt.Sprintf("p%d", i)}, Spec: corev1.PodSpec{NodeName: "n1"}}
			fw.Evictor().Evict(context.TODO(), pod, framework.EvictOptions{}) // every plugin obtains its own proxy
		}(i)
	}
	wg.Wait()
	if plugin.issued > 3 || limiter.TotalEvicted() != uint(plugin.issued) {
		t.Fatalf("total cap is 3 but %d evictions were issued (limiter counted %d)", plugin.issued, limiter.TotalEvicted())
	}
}
