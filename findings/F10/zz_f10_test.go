package nodenumaresource

import (
	"sync"
	"testing"

	"k8s.io/apimachinery/pkg/types"

	"github.com/koordinator-sh/koordinator/pkg/util/cpuset"
)

// F10 (C06): the NUMA shared/single status is read while allocations are added and released
// under the node lock. Run with -race: the read in GetAllNUMANodeStatus must not race.
func TestF10_StatusReadRacesWithUpdate(t *testing.T) {
	topo := buildCPUTopologyForTest(2, 1, 4, 2)
	n := NewNodeAllocation("n")
	var wg sync.WaitGroup
	wg.Add(2)
	go func() {
		defer wg.Done()
		for i := 0; i < 2000; i++ {
			n.lock.Lock()
			n.addCPUs(topo, types.UID("p"), cpuset.NewCPUSet(0, 1), "")
			n.release(types.UID("p"))
			n.lock.Unlock()
		}
	}()
	go func() {
		defer wg.Done()
		for i := 0; i < 2000; i++ {
			_ = n.GetAllNUMANodeStatus(2)
		}
	}()
	wg.Wait()
}
