package util

import (
	"testing"

	corev1 "k8s.io/api/core/v1"
	"k8s.io/apimachinery/pkg/api/resource"
	metav1 "k8s.io/apimachinery/pkg/apis/meta/v1"

	apiext "github.com/koordinator-sh/koordinator/apis/extension"
)

type f7Executor struct{ evicted []string }

func (e *f7Executor) Evict(pod *corev1.Pod, node *corev1.Node, reason, msg string) bool {
	e.evicted = append(e.evicted, pod.Name)
	return true
}
func (e *f7Executor) IsPodEvicted(*corev1.Pod) bool { return false }

// F7 (C11): only mid-memory is over its allocatable threshold (1Gi short). The candidate list is
// ordered by priority, so the batch pod comes first; its release list for this task is empty
// (exactly what memoryevict's calculateFunc returns for a tier that is not short).
// No pod may be evicted whose removal frees nothing of what is still short.
func TestF7_VictimThatFreesNothingOfTheShortage(t *testing.T) {
	batch := &corev1.Pod{ObjectMeta: metav1.ObjectMeta{Namespace: "d", Name: "batch-pod", UID: "b"}}
	mid := &corev1.Pod{ObjectMeta: metav1.ObjectMeta{Namespace: "d", Name: "mid-pod", UID: "m"}}
	gi := resource.MustParse("1Gi")
	task := &EvictTaskInfo{
		Reason:            "mid-memory allocatable over threshold",
		SortedEvictPods:   []*PodEvictInfo{{Pod: batch}, {Pod: mid}},
		ReleaseTarget:     "memoryAllocatable",
		ToReleaseResource: corev1.ResourceList{apiext.MidMemory: gi},
		GetPodResourceFunc: func(info *PodEvictInfo) corev1.ResourceList {
			if info.Pod.Name == "mid-pod" {
				return corev1.ResourceList{apiext.MidMemory: gi}
			}
			return nil // the batch tier is not short: this pod releases nothing for the task
		},
	}
	ex := &f7Executor{}
	KillAndEvictPods(ex, &corev1.Node{}, []*EvictTaskInfo{task})
	for _, n := range ex.evicted {
		if n == "batch-pod" {
			t.Fatalf("batch-pod was evicted although it frees nothing of the mid-memory shortage; evicted: %v", ex.evicted)
		}
	}
	if len(ex.evicted) != 1 {
		t.Fatalf("expected exactly the mid pod to be evicted, got %v", ex.evicted)
	}
}
