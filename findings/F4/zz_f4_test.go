package elasticquota

import (
	"testing"

	"github.com/koordinator-sh/koordinator/apis/extension"
)

// F4 (C15): A under root, B under A, then A is re-parented under its own child B. The admitted
// quotas must still form a forest hanging off the root: following parent links from A must reach root.
func TestF4_ReparentUnderOwnDescendantCreatesCycle(t *testing.T) {
	qt := newFakeQuotaTopology()
	a := MakeQuota("a").Max(MakeResourceList().CPU(100).Mem(1000).Obj()).Min(MakeResourceList().CPU(10).Mem(100).Obj()).IsParent(true).Obj()
	qt.fillQuotaDefaultInformation(a)
	if err := qt.ValidAddQuota(a); err != nil {
		t.Fatal(err)
	}
	b := MakeQuota("b").ParentName("a").Max(MakeResourceList().CPU(100).Mem(1000).Obj()).Min(MakeResourceList().CPU(10).Mem(100).Obj()).IsParent(true).Obj()
	qt.fillQuotaDefaultInformation(b)
	if err := qt.ValidAddQuota(b); err != nil {
		t.Fatal(err)
	}
	oldA := a.DeepCopy()
	a.Labels[extension.LabelQuotaParent] = "b"
	err := qt.ValidUpdateQuota(oldA, a)
	if err != nil {
		return // rejected: fine
	}
	// accepted: walk the parent links from a; it must reach the root within |quotas| steps
	cur := "a"
	for i := 0; i < 10; i++ {
		if cur == extension.RootQuotaName {
			return
		}
		cur = qt.quotaInfoMap[cur].ParentName
	}
	t.Fatalf("re-parenting a under its own child b was accepted; parent links now cycle: a -> %s -> %s", qt.quotaInfoMap["a"].ParentName, qt.quotaInfoMap["b"].ParentName)
}
