package nodenumaresource

import (
	"testing"

	corev1 "k8s.io/api/core/v1"
	"k8s.io/apimachinery/pkg/api/resource"

	"github.com/koordinator-sh/koordinator/pkg/scheduler/frameworkext/topologymanager"
	"github.com/koordinator-sh/koordinator/pkg/util/bitmask"
)

// F1 (C06): a hint that names NUMA nodes {1,2}, with 10Gi free on node 1 and 2Gi on node 2, must satisfy
// a freely divisible 8Gi request (12Gi are free on the hinted nodes).
func TestF1_HintNotStartingAtZero(t *testing.T) {
	gi := func(n int64) resource.Quantity { return *resource.NewQuantity(n<<30, resource.BinarySI) }
	mask, _ := bitmask.NewBitMask(1, 2)
	total := map[int]corev1.ResourceList{
		1: {corev1.ResourceMemory: gi(10)},
		2: {corev1.ResourceMemory: gi(2)},
	}
	opts := &ResourceOptions{hint: topologymanager.NUMATopologyHint{NUMANodeAffinity: mask}}
	_, reasons := tryBestToDistributeEvenly(corev1.ResourceList{corev1.ResourceMemory: gi(8)}, total, opts)
	if len(reasons) != 0 {
		t.Fatalf("8Gi requested, 12Gi free on hinted NUMA nodes {1,2}, but allocation failed: %v", reasons)
	}
}
