package cpusuppress

import (
	"testing"

	"go.uber.org/mock/gomock"
	"github.com/stretchr/testify/assert"
	corev1 "k8s.io/api/core/v1"
	"k8s.io/apimachinery/pkg/api/resource"

	maframework "github.com/koordinator-sh/koordinator/pkg/koordlet/metricsadvisor/framework"
	"github.com/koordinator-sh/koordinator/pkg/koordlet/metriccache"
	"github.com/koordinator-sh/koordinator/pkg/koordlet/qosmanager/framework"
	"github.com/koordinator-sh/koordinator/pkg/koordlet/statesinformer"
	mockstatesinformer "github.com/koordinator-sh/koordinator/pkg/koordlet/statesinformer/mockstatesinformer"
	koordletutil "github.com/koordinator-sh/koordinator/pkg/koordlet/util"
	"github.com/koordinator-sh/koordinator/pkg/koordlet/util/system"
)

// F3 (C10): every CPU of the node is reserved by the node annotation, so no CPU is eligible for BE.
// The suppress computation must not crash the agent; the BE cpuset stays as it is.
func TestF3_AllCPUsProtected(t *testing.T) {
	info := metriccache.NodeCPUInfo{ProcessorInfos: []koordletutil.ProcessorInfo{
		{CPUID: 0, CoreID: 0, SocketID: 0, NodeID: 0},
		{CPUID: 1, CoreID: 0, SocketID: 0, NodeID: 0},
		{CPUID: 2, CoreID: 1, SocketID: 0, NodeID: 0},
		{CPUID: 3, CoreID: 1, SocketID: 0, NodeID: 0},
	}}
	ctrl := gomock.NewController(t)
	si := mockstatesinformer.NewMockStatesInformer(ctrl)
	si.EXPECT().GetAllPods().Return([]*statesinformer.PodMeta{}).AnyTimes()
	si.EXPECT().GetNodeTopo().Return(genNodeResourceTopo(`{"reservedCPUs":"0-3"}`)).AnyTimes()
	r := &framework.Options{StatesInformer: si, Config: framework.NewDefaultConfig(), MetricAdvisorConfig: maframework.NewDefaultConfig()}
	cs := newTestCPUSuppress(r)
	stop := make(chan struct{})
	cs.init(stop)
	helper := system.NewFileTestUtil(t)
	testingPrepareBECgroupData(helper, []string{"pod1"}, "2,3")
	assert.NotPanics(t, func() {
		cs.adjustByCPUSet(resource.NewQuantity(2, resource.DecimalSI), &info)
	})
	got := helper.ReadCgroupFileContents(koordletutil.GetPodQoSRelativePath(corev1.PodQOSBestEffort), system.CPUSet)
	assert.Equal(t, "2,3", got)
}
