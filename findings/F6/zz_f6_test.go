package core

import (
	"testing"

	v1 "k8s.io/api/core/v1"
	metav1 "k8s.io/apimachinery/pkg/apis/meta/v1"

	"github.com/koordinator-sh/koordinator/pkg/scheduler/plugins/coscheduling/util"
)

// F6 (C04): the informer delivers the update event produced by the pre-bind patch (nodeName still
// empty) after the scheduling goroutine has already run PostBind for the pod. The pod must stay in
// exactly one of the pending / waiting / bound sets.
func TestF6_StaleUpdateAfterPostBind(t *testing.T) {
	gang := NewGang("default/g")
	pod := &v1.Pod{ObjectMeta: metav1.ObjectMeta{Namespace: "default", Name: "p1"}}
	id := util.GetId(pod.Namespace, pod.Name)
	gang.setChild(pod)      // informer: add
	gang.addAssumedPod(pod) // Permit
	gang.addBoundPod(pod)   // PostBind
	gang.setChild(pod)      // informer: stale update (pre-bind patch), nodeName == ""
	n := 0
	if gang.PendingChildren[id] != nil {
		n++
	}
	if gang.WaitingForBindChildren[id] != nil {
		n++
	}
	if gang.BoundChildren[id] != nil {
		n++
	}
	if n != 1 {
		t.Fatalf("pod is in %d of the pending/waiting/bound sets (pending=%v waiting=%v bound=%v)", n,
			gang.PendingChildren[id] != nil, gang.WaitingForBindChildren[id] != nil, gang.BoundChildren[id] != nil)
	}
}
