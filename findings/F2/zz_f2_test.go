package batchresource

import (
	"testing"

	corev1 "k8s.io/api/core/v1"
	metav1 "k8s.io/apimachinery/pkg/apis/meta/v1"
	"k8s.io/utils/ptr"

	"github.com/koordinator-sh/koordinator/apis/configuration"
	"github.com/koordinator-sh/koordinator/apis/extension"
)

// F2 (C09): under the maxUsageRequest policy a high-priority pod that has not reported metrics yet
// must be charged at its request. Node 100 CPU, margin 35%, system 7, one prod pod requesting 20
// without metrics: batch CPU must not exceed 100 - 35 - 7 - 20 = 38 cores.
func TestF2_PodWithoutMetricChargedUnderMaxUsageRequest(t *testing.T) {
	policy := configuration.CalculateByPodMaxUsageRequest
	strategy := &configuration.ColocationStrategy{
		Enable:                        ptr.To[bool](true),
		CPUReclaimThresholdPercent:    ptr.To[int64](65),
		MemoryReclaimThresholdPercent: ptr.To[int64](65),
		DegradeTimeMinutes:            ptr.To[int64](15),
		CPUCalculatePolicy:            &policy,
	}
	node := &corev1.Node{ObjectMeta: metav1.ObjectMeta{Name: "n"}, Status: makeNodeStat("100", "120G")}
	pods := &corev1.PodList{Items: []corev1.Pod{{
		ObjectMeta: metav1.ObjectMeta{Name: "new-prod", Namespace: "test", Labels: map[string]string{extension.LabelPodQoS: string(extension.QoSLS)}},
		Spec: corev1.PodSpec{NodeName: "n", Containers: []corev1.Container{{Resources: makeResourceReq("20", "20G")}}},
		Status: corev1.PodStatus{Phase: corev1.PodRunning},
	}}}
	metrics := getTestResourceMetrics()
	metrics.NodeMetric.Status.PodsMetric = nil
	p := &Plugin{}
	got, _, _ := p.calculateOnNode(strategy, node, pods, metrics)
	if c := got.Cpu().MilliValue(); c > 38000 {
		t.Fatalf("batch CPU %dm exceeds capacity-margin-system-request = 38000m: the metric-less prod pod (request 20) is not charged", c)
	}
}
