package core

import (
	"testing"

	"github.com/stretchr/testify/assert"

	"github.com/koordinator-sh/koordinator/apis/extension"
)

// F9 (C01): parent P has children C (max 10 CPU) and D. C's pods request 30 (limited to 10 when it is
// handed to P), D's pods request 20, so P reports request 30. Moving C under another parent must leave
// P with D's 20 - nothing counted twice or lost.
func TestF9_ReparentOverRequestedChildKeepsSiblingsRequest(t *testing.T) {
	gqm := NewGroupQuotaManagerForTest()
	gqm.UpdateClusterTotalResource(createResourceList(1000, 1000*GigaByte))
	AddQuotaToManager(t, gqm, "p", extension.RootQuotaName, 500, 500*GigaByte, 0, 0, true, true)
	AddQuotaToManager(t, gqm, "p2", extension.RootQuotaName, 500, 500*GigaByte, 0, 0, true, true)
	c := AddQuotaToManager(t, gqm, "c", "p", 10, 10*GigaByte, 0, 0, true, false)
	AddQuotaToManager(t, gqm, "d", "p", 100, 100*GigaByte, 0, 0, true, false)

	gqm.updateGroupDeltaRequestNoLock("c", createResourceList(30, 30*GigaByte), createResourceList(0, 0), 0)
	gqm.updateGroupDeltaRequestNoLock("d", createResourceList(20, 20*GigaByte), createResourceList(0, 0), 0)
	p := gqm.GetQuotaInfoByName("p")
	assert.Equal(t, createResourceList(30, 30*GigaByte), p.CalculateInfo.Request, "before: 10 (c, max-limited) + 20 (d)")

	c.Labels[extension.LabelQuotaParent] = "p2"
	assert.Nil(t, gqm.UpdateQuota(c))

	p = gqm.GetQuotaInfoByName("p")
	assert.Equal(t, createResourceList(20, 20*GigaByte), p.CalculateInfo.Request, "after moving c away, p must still report d's 20")
	p2 := gqm.GetQuotaInfoByName("p2")
	assert.Equal(t, createResourceList(10, 10*GigaByte), p2.CalculateInfo.Request, "p2 receives c's max-limited 10")
}
