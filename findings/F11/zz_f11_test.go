package nodenumaresource

import (
	"testing"

	schedulingconfig "github.com/koordinator-sh/koordinator/pkg/scheduler/apis/config"
	"github.com/koordinator-sh/koordinator/pkg/util/cpuset"
)

// F11 (C06): 3 sockets x 4 cores x 2 threads; the first two cores of every socket are taken
// (CPUs 0-3, 8-11, 16-19), so 4 CPUs = 2 full cores are free on each socket. A FullPCPUs request for
// 7 CPUs must return exactly 7 CPUs.
func TestF11_TakeCPUsReturnsExactlyTheRequestedNumber(t *testing.T) {
	topo := buildCPUTopologyForTest(3, 1, 4, 2)
	available := cpuset.MustParse("4-7,12-15,20-23")
	got, err := takeCPUs(topo, 1, available, NewCPUDetails(), 7, schedulingconfig.CPUBindPolicyFullPCPUs, schedulingconfig.CPUExclusivePolicyNone, schedulingconfig.NUMAMostAllocated)
	if err != nil {
		t.Fatal(err)
	}
	if got.Size() != 7 {
		t.Fatalf("requested 7 CPUs, got %d: %s", got.Size(), got.String())
	}
}
